#!/usr/bin/env python3
"""Developer tool: regenerates the table of seeded changes in DESIGN.md (section 11) from
seeded/*/meta.json.  Verdict: caught by target / caught by others only / MISSED."""
import glob
import json
import os
import re

ROOT = os.path.dirname(os.path.dirname(os.path.abspath(__file__)))


def clip(s, n):
    s = (s or "").replace("|", "/").replace("\n", " ")
    return s[:n]


def rows():
    out = []
    for f in sorted(glob.glob(os.path.join(ROOT, "seeded", "*", "meta.json"))):
        m = json.load(open(f))
        det = sorted(m.get("detected_by") or [])
        verdict = ("**caught by target**" if m["property"] in det else
                   "caught by others only" if det else "**MISSED**")
        out.append("| %s | %s | %s | %s | %s | %s |" % (m["seed"], m["property"], clip(m.get("summary"), 260),
                                                     clip(m.get("needs"), 200), ", ".join(det) or "-", verdict))
    return out


def main():
    p = os.path.join(ROOT, "DESIGN.md")
    s = open(p).read()
    head = "| seed | target | change | needs | checks that report it | verdict |\n|---|---|---|---|---|---|\n"
    a = s.index(head)
    b = s.index("## Appendix A.")
    s = s[:a] + head + "\n".join(rows()) + "\n\n\n" + s[b:]
    open(p, "w").write(s)
    rs = rows()
    print(len(rs), "seeds;", sum("caught by target" in r for r in rs), "by target,",
          sum("others only" in r for r in rs), "by others only,", sum("MISSED" in r for r in rs), "missed")


if __name__ == "__main__":
    main()
