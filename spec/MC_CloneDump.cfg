SPECIFICATION Spec
CONSTANTS
  Overhead = 56
  GroupWidth = 16
  CacheIds = {1, 2}
  Keys <- CKeys
  KHeaps <- CKHeaps
  VSizes <- CVSizes
  Limits <- QCLimits
  InitCaps <- CInitCaps
  Addl <- CAddl
  Ops <- QCOps
  MaxWord = 0
  Letters = {"n", "b"}
VIEW DumpView
ACTION_CONSTRAINT Emit
CHECK_DEADLOCK FALSE
