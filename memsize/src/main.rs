//! Generated-probe runner for the size algebra (C08, C09).
//!
//!   memsize values SEED      one record per (type term, generated value)
//!   memsize bulk SEED        the four bulk helpers over differently shaped iterators
//!   memsize total CASE N     one big value on a 2 MiB stack (run in a child process)
//!
//! The generic `Probe` impls below read the STRUCTURE of real values
//! (constructors, lengths, capacities, variants, size_of facts) into the
//! abstract values of spec/MemSize.tla. They contain no size arithmetic.

mod alloc;
mod probe;
#[allow(clippy::all)]
mod gen;

use serde_json::{json, Value};

#[global_allocator]
static A: alloc::CountingAlloc = alloc::CountingAlloc;

fn main() {
    let args: Vec<String> = std::env::args().collect();
    let mode = args.get(1).map(|s| s.as_str()).unwrap_or("values");

    match mode {
        "values" => {
            let seed: u64 = args.get(2).and_then(|s| s.parse().ok()).unwrap_or(1);
            let reps: u64 = args.get(3).and_then(|s| s.parse().ok()).unwrap_or(6);
            let mut out: Vec<Value> = Vec::new();
            gen::run_values(seed, reps, &mut out);
            probe::held_lock_records(seed, &mut out);
            for r in out { println!("{}", r); }
        },
        "bulk" => {
            let seed: u64 = args.get(2).and_then(|s| s.parse().ok()).unwrap_or(1);
            let mut out: Vec<Value> = Vec::new();
            gen::run_bulk(seed, &mut out);
            for r in out { println!("{}", r); }
        },
        "total" => {
            let case = args.get(2).cloned().unwrap_or_default();
            let n: usize = args.get(3).and_then(|s| s.parse().ok()).unwrap_or(1_000_000);
            let handle = std::thread::Builder::new()
                .stack_size(2 * 1024 * 1024)
                .spawn(move || probe::total(&case, n))
                .unwrap();
            match handle.join() {
                Ok(v) => println!("{}", v),
                Err(_) => println!("{}", json!({"kind": "total", "ty": args.get(2), "status": "panic",
                    "heap": 0, "expect": 0}))
            }
        },
        _ => eprintln!("unknown mode")
    }
}
