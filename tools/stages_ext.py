"""Stages beyond the core pipeline: iterators (C12, C17), clones (C14), crash points (C16),
pointer-level model (C07/C16/C17 design level), size algebra (C08, C09), borrow discipline
(C18)."""
import json
import os


def replay_into(prop, rep, fnd, cov, ck, universe=3):
    nconf = 0
    executed = 0
    for c in rep["configs"]:
        nconf += 1
        if c["crashed"]:
            if prop in ("C07", "C12", "C14", "C17"):
                fnd.add("replayer_crash", "replayer process died (rc %s) under %s/%s: %s" %
                        (c["returncode"], c["hasher"], c["keyform"], c["stderr"][-300:]),
                        {"kind": "replay-crash", "script": rep["script"], "hasher": c["hasher"],
                         "keyform": c["keyform"]})
            continue
        executed += c["summary"]["executed"]
        mine = []
        sigs = set()
        for m in c["mismatches"]:
            sig = "replay:%s:%s" % (m["op"], m["facet"])
            if prop in ck.replay_owners(m) and sig not in sigs:
                sigs.add(sig)
                mine.append(m)
        segs = ck.script_segments(rep["script"], [m["line"] for m in mine[:8]])
        for m in mine[:8]:
            if True:
                seg = segs.get(m["line"], [])
                fnd.add("replay:%s:%s" % (m["op"], m["facet"]),
                        "replay %s/%s line %d op %s facet %s: expected %s, real cache gave %s" %
                        (c["hasher"], c["keyform"], m["line"], m["op"], m["facet"],
                         json.dumps(m["expected"])[:300], json.dumps(m["actual"])[:300]),
                        {"kind": "replay", "hasher": c["hasher"], "keyform": c["keyform"],
                         "universe": universe, "ops": seg, "facet": m["facet"],
                         "expected": m["expected"], "actual": m["actual"]})
    cov["replay_configurations"] = cov.get("replay_configurations", 0) + nconf
    cov["replayed_steps"] = cov.get("replayed_steps", 0) + executed


def model_into(prop, model, cov, ck, key):
    cov["states"] = cov.get("states", 0) + model["states"]
    cov["transitions"] = cov.get("transitions", 0) + model["transitions"]
    cov.setdefault("models", {})[key] = {"cfg": model["cfg"], "states": model["states"],
                                         "transitions": model["transitions"],
                                         "depth": model.get("depth"), "wall_s": model.get("wall_s")}
    if not model["ok"]:
        raise ck.ToolError("bounded model %s violates the specification's own properties:\n%s" %
                           (key, model.get("output_tail", "")[-2500:]))


def segments_into(prop, seg, fnd, cov, ck, what):
    """TLC verdicts on segment runs (forget / crash)"""
    runs = 0
    fired = 0
    events = 0
    for r in seg["runs"]:
        v = r["validation"]
        if r.get("crashed") and prop in ("C07", "C16", "C17"):
            fnd.add("process_died:" + what,
                    "the process running the %s segments died (rc %s) under %s/%s: %s" %
                    (what, r["rc"], r["hasher"], r["keyform"], r.get("stderr", "")[-300:]),
                    {"kind": "segments", "file": r["segments_file"], "hasher": r["hasher"],
                     "keyform": r["keyform"]})
        if not v["ok"]:
            raise ck.ToolError("TLC could not evaluate a %s trace:\n%s" % (what, v["tail"]))
        runs += 1
        events += r["events"]
        if r.get("summary"):
            fired += r["summary"].get("fired", 0)
        for b in v["bad"]:
            for pr, facet in b["bad"]:
                if pr == prop:
                    ops = r.get("bad_context", {}).get(str(b["line"]), [])
                    last = ops[-1] if ops else {}
                    cr = last.get("crash", {})
                    sig = "%s:%s:%s:%s" % (what, b["op"], cr.get("kind", "-"), facet)
                    if facet == "shrink_raises_with_tombstones":
                        sig = facet                # finding F5, wherever it is met
                    fnd.add(sig, "%s segment under %s/%s, event %d: op %s%s: facet %s rejected" %
                            (what, r["hasher"], r["keyform"], b["line"], b["op"],
                             (" with a panic at the %s-th %s callback" % (cr.get("n"), cr.get("kind")))
                             if cr else "", facet),
                            {"kind": "trace", "hasher": r["hasher"], "keyform": r["keyform"],
                             "universe": 3, "ops": ops, "facet": facet})
    cov["traces_validated_against_impl"] = cov.get("traces_validated_against_impl", 0) + runs
    cov["trace_events"] = cov.get("trace_events", 0) + events
    cov[what + "_points_hit"] = cov.get(what + "_points_hit", 0) + fired


def stage_list(tier, ck):
    """pointer-level model LruList: the algorithm as in the working tree must satisfy
    MemSafe / WellFormed / Refines; the two pinned variants (F4, F3) must be REJECTED,
    which shows the model can tell them apart (vacuity guard)"""
    import shutil

    def go(d):
        w = ck.spec_workdir(d)
        out = {}
        for key, cfg, want_ok in (("repaired", "MC_List%s.cfg" % ck.tier_suffix(tier), True),
                                  ("pinned_realloc", "MC_ListPinnedRealloc.cfg", False),
                                  ("pinned_drain", "MC_ListPinnedDrain.cfg", False)):
            p = ck.tlc(w, "LruList.tla", cfg, workers=min(8, ck.NCPU), timeout=3600,
                       extra=["-coverage", "1"] if want_ok else None)
            st = ck.parse_tlc_stats(p.stdout)
            st["cfg"] = cfg
            if want_ok:
                st["coverage"] = ck.parse_coverage(p.stdout)
            st["violated"] = [l for l in p.stdout.splitlines() if l.startswith("Error: Invariant")]
            if want_ok and not st["ok"]:
                st["tail"] = p.stdout[-3000:]
            if not want_ok and not st["violated"]:
                raise ck.ToolError("LruList no longer rejects the pinned variant %s:\n%s" %
                                   (cfg, p.stdout[-2000:]))
            out[key] = st
        shutil.rmtree(w, ignore_errors=True)
        return out
    return ck.cached("list-" + tier, ck.spec_hash(), go)


def list_into(prop, tier, fnd, cov, ck):
    ls = stage_list(tier, ck)
    rep = ls["repaired"]
    cov["states"] = cov.get("states", 0) + rep["states"]
    cov["transitions"] = cov.get("transitions", 0) + rep["transitions"]
    cov.setdefault("models", {})["LruList"] = {
        "cfg": rep["cfg"], "states": rep["states"], "transitions": rep["transitions"],
        "action_coverage": rep.get("coverage"),
        "pinned_variants_rejected": {k: ls[k]["violated"] for k in ("pinned_realloc", "pinned_drain")}}
    if not rep["ok"]:
        raise ck.ToolError("pointer-level model LruList violates its invariants:\n" + rep.get("tail", ""))


def clone_dump(tier, ck):
    return ck.stage_dump(tier, module="MC_Clone.tla", base="MC_CloneDump", name="dump-clone",
                         segments=(("crash", 400 if tier == "quick" else 1200),))


def clone_crash_into(prop, tier, fnd, cov, ck):
    """panics inside clone() (Clone of key / value, Hash while filling the new table) and inside
    calls made while two caches are alive"""
    dump = clone_dump(tier, ck)
    seg = ck.stage_segments(tier, dump["crash"]["file"], "segments-clonecrash", universe="3")
    segments_into(prop, seg, fnd, cov, ck, "crash")


def collect(prop, tier, fnd, cov, ck):
    if prop in ("C16", "C17"):
        list_into(prop, tier, fnd, cov, ck)
    if prop in ("C12", "C17"):
        model = ck.stage_model(tier, module="MC_Iter.tla", base="MC_Iter", name="model-iter")
        model_into(prop, model, cov, ck, "MC_Iter")
        dump = ck.stage_dump(tier, module="MC_Iter.tla", base="MC_IterDump", name="dump-iter",
                             segments=(("forget", 1500 if tier == "quick" else 4000),))
        cov["edges"] = dump["tour"]["edges"]
        nt = dump["nontrivial"]
        if prop == "C12":
            rep = ck.stage_replay(tier, dump=dump, name="replay-iter", universe="4")
            replay_into(prop, rep, fnd, cov, ck, universe=4)
            ck.shapes_into(prop, tier, fnd, cov)
            drv = ck.stage_drive(tier)
            ck.collect_drive(prop, drv, fnd, cov)
            cov["distinct_nontrivial"] = nt["counts"].get("C12", 0)
            cov["samples"] = nt["samples"].get("C12", [])[:3]
        else:
            seg = ck.stage_segments(tier, dump["forget"]["file"], "segments-forget", universe="4")
            segments_into(prop, seg, fnd, cov, ck, "forget")
            if tier != "quick":
                ck.asan_into(prop, ck.stage_asan(tier, dump["script"], segfiles=(dump["forget"]["file"],),
                                                 name="asan-forget"), fnd, cov, "forget segments")
            plan = forget_plan(tier, int(os.environ.get("VERIF_SEED", "0")))
            drv = ck.stage_drive(tier, name="drive-forget", plan=plan)
            ck.collect_drive(prop, drv, fnd, cov, crash_owner="C17")
            cov["distinct_nontrivial"] = dump["forget"]["segments"]
            cov["samples"] = first_segments(dump["forget"]["file"], 2)
            cov["evaluations"] = cov.get("trace_events", 0)
        return
    if prop == "C14":
        model = ck.stage_model(tier, module="MC_Clone.tla", base="MC_Clone", name="model-clone")
        model_into(prop, model, cov, ck, "MC_Clone")
        dump = clone_dump(tier, ck)
        cov["edges"] = dump["tour"]["edges"]
        nt = dump["nontrivial"]
        rep = ck.stage_replay(tier, dump=dump, name="replay-clone", universe="3")
        replay_into(prop, rep, fnd, cov, ck)
        drv = ck.stage_drive(tier)
        ck.collect_drive(prop, drv, fnd, cov)
        cov["distinct_nontrivial"] = nt["counts"].get("C14", 0)
        cov["samples"] = nt["samples"].get("C14", [])[:3]
        return
    if prop == "C16":
        model = ck.stage_model(tier)
        model_into(prop, model, cov, ck, "MC_Small")
        dump = ck.core_dump(tier)
        seg = ck.stage_segments(tier, dump["crash"]["file"], "segments-crash", universe="3")
        segments_into(prop, seg, fnd, cov, ck, "crash")
        clone_crash_into(prop, tier, fnd, cov, ck)
        segments_into(prop, ck.stage_bigcrash(tier), fnd, cov, ck, "crash")
        if tier != "quick":
            ck.asan_into(prop, ck.stage_asan(tier, dump["script"], segfiles=(dump["crash"]["file"],),
                                             name="asan-crash"), fnd, cov, "crash segments")
        plan = crash_plan(tier, int(os.environ.get("VERIF_SEED", "0")))
        drv = ck.stage_drive(tier, name="drive-crash", plan=plan)
        ck.collect_drive(prop, drv, fnd, cov, crash_owner="C16")
        cov["distinct_nontrivial"] = cov.get("crash_points_hit", 0)
        cov["samples"] = first_segments(dump["crash"]["file"], 2)
        cov["evaluations"] = cov.get("trace_events", 0)
        return
    if prop == "C18":
        bw = stage_borrow(tier, ck)
        cov["programs"] = bw["programs"]
        cov["evaluations"] = bw["programs"]
        cov["distinct_nontrivial"] = bw["rejected"]
        cov["accepted_as_predicted"] = bw["accepted"]
        cov["rejected_as_predicted"] = bw["rejected"]
        cov["rejected_with_exact_predicted_error_code"] = bw["exact_code"]
        cov["states"] = bw["tlc"]["states"]
        cov["transitions"] = bw["tlc"]["transitions"]
        cov["samples"] = bw["samples"]
        cov["explanation"] = (
            "spec/Borrow.tla models the loan discipline (every lending API x every public call, with the "
            "receiver mode of each cross-checked against the pub fn signatures in src/lib.rs) and the auto-trait "
            "rule (64 witness assignments for K, V, S x Send/Sync, plus generic obligations with one bound "
            "missing).  TLC checks NoMutationWhileLoaned on the loan machine and enumerates every program "
            "`acquire a; call b; use a` with its predicted verdict; rustc (cargo check) is the decision "
            "procedure: every predicted-accept function must compile, every predicted-reject function must "
            "carry a borrow-check (E0499/E0502/E0505..) or trait (E0277) error on its own lines.")
        cov["rule"] = "non-trivial = programs predicted to be rejected (each a distinct acquire/call pair or witness assignment)"
        # an API unknown to the model is a coverage gap (tool error).  An API whose receiver is
        # WEAKER in the code than in the model (e.g. a promoting call through &self) is not: the
        # probes are generated with the model's modes, so rustc accepting what the model rejects
        # shows up as a disagreement, i.e. a violation.
        cov["api_receiver_differs_from_model"] = bw.get("api_wrong_mode")
        if bw.get("api_gaps") or bw.get("api_stale"):
            raise ck.ToolError("the API table of spec/Borrow.tla no longer covers src/lib.rs: gaps %s, stale %s"
                               % (bw.get("api_gaps"), bw.get("api_stale")))
        for dsg in bw["disagreements"]:
            pr = dsg.get("program") or {}
            sig = "borrow:%s:%s:%s" % (pr.get("kind", dsg.get("target")), pr.get("acq", pr.get("trait", "")),
                                        pr.get("call", pr.get("missing", json.dumps([pr.get("k"), pr.get("v"), pr.get("s")]))))
            fnd.add(sig, "rustc disagrees with spec/Borrow.tla: %s" % json.dumps(dsg)[:500],
                    {"kind": "borrow", "disagreement": dsg})
        return
    if prop in ("C08", "C09"):
        ms = stage_memsize(tier, ck)
        cov["evaluations"] = ms["records"]
        cov["type_terms"] = ms["gen"]["types"]
        cov["distinct_nontrivial"] = ms["distinct_shapes"]
        cov["samples"] = ms["samples"]
        cov["tlc_records_validated"] = ms["validated"]
        cov["totality_cases"] = ms["total_cases"]
        cov["rule"] = ("TLC enumerates every type term of depth <= 2 over %d constructors (trait bounds "
                       "respected), the systematic depth-3 bulk layer O(W(leaf)) (every container / forwarding wrapper "
                       "O over every wrapper W of a heap-owning and a heap-free leaf), a seeded depth-3 sample, "
                       "fixed tuple/array terms and locks held by another thread while measured; for each, "
                       "generated values with random builder histories (spare capacity at every level), "
                       "7 iterator shapes for the four bulk helpers, and 10^6-element runs on a 2 MiB "
                       "stack; non-trivial = distinct (type term, abstract shape) pairs with at least one "
                       "heap allocation or child" % ms["constructors"])
        for b in ms["bad"]:
            for pr, facet in b["bad"]:
                if pr == prop:
                    fnd.add("memsize:%s:%s" % (sig_type(b.get("ty", "?")), facet.split(":")[0] if pr == "C09" else facet),
                            "size probe %s (%s): facet %s rejected by spec/MemSize.tla: %s" %
                            (b.get("ty"), b.get("file"), facet, json.dumps(b.get("record"))[:400]),
                            {"kind": "memsize", "record": b.get("record"), "facet": facet, "ty": b.get("ty")})
        return
    raise ck.ToolError("no stage built yet for " + prop)


def sig_type(ty):
    """signature class of a type term: the innermost constructor that matters"""
    for leaf in ("PathBuf", "OsString", "CString", "BoxPath", "BoxCStr", "BoxStr", "HashMap", "HashSet"):
        if leaf in ty:
            return leaf
    return ty.split("(")[0].split("<")[0]


def stage_memsize(tier, ck):
    import shutil
    import subprocess
    import sys
    seed = os.environ.get("VERIF_SEED", "0")
    ms_dir = os.path.join(ck.ROOT, "memsize")

    def go(d):
        w = ck.spec_workdir(d)
        p = ck.tlc(w, "MemSize.tla", "MemSizeEnum.cfg", workers=1, timeout=600)
        types_out = os.path.join(d, "types.out")
        with open(types_out, "w") as fh:
            fh.write(p.stdout)
        q = ck.run([sys.executable, os.path.join(ck.ROOT, "tools", "gen_probes.py"), types_out,
                    os.path.join(ms_dir, "src", "gen.rs"), "--seed", seed,
                    "--depth3", "60" if tier == "quick" else "600"], 600)
        gen = json.loads(q.stdout.strip().splitlines()[-1])
        b = ck.run(["cargo", "build", "--offline"], 3600, cwd=ms_dir, env={"CARGO_NET_OFFLINE": "true"},
                   ok_codes=None)
        if b.returncode != 0:
            raise ck.ToolError("size probes do not build:\n" + b.stderr[-4000:])
        exe = os.path.join(ms_dir, "target", "debug", "lru-mem-verif-memsize")
        reps = "6" if tier == "quick" else "40"
        files = {}
        for mode, args in (("values", [seed, reps]), ("bulk", [seed])):
            r = subprocess.run([exe, mode] + args, stdout=subprocess.PIPE, stderr=subprocess.PIPE, text=True,
                               timeout=1800)
            path = os.path.join(d, mode + ".ndjson")
            with open(path, "w") as fh:
                fh.write(r.stdout)
            files[mode] = path
            if r.returncode != 0:
                # the crate's size computation brought the process down
                with open(path, "a") as fh:
                    fh.write(json.dumps({"kind": "total", "ty": "<" + mode + " run>", "n": 0,
                                         "status": "crash_rc_%d" % r.returncode, "heap": 0, "expect": 0}) + "\n")
        # totality: one child process per case
        cases = ["Vec<[String;0]>", "Vec<[u8;0]>", "Vec<[[String;0];3]>", "Vec<[String;1]>",
                 "Vec<Box<u64>>", "Vec<(String,u8)>", "Vec<Option<String>>", "Vec<Vec<u8>>",
                 "Vec<Box<[[u8;0]]>>", "Vec<Wrapping<[String;0]>>", "Vec<u64>"]
        n = "1000000" if tier == "quick" else "3000000"
        tot = os.path.join(d, "total.ndjson")
        with open(tot, "w") as fh:
            for c in cases:
                try:
                    r = subprocess.run([exe, "total", c, n], stdout=subprocess.PIPE, stderr=subprocess.PIPE,
                                       text=True, timeout=600)
                    line = r.stdout.strip().splitlines()[-1] if r.stdout.strip() else ""
                    rc = r.returncode
                except subprocess.TimeoutExpired:
                    line, rc = "", -9
                if rc != 0 or not line:
                    line = json.dumps({"kind": "total", "ty": c, "n": int(n),
                                       "status": "stack_overflow_or_abort_rc_%d" % rc, "heap": 0, "expect": 0})
                fh.write(line + "\n")
        files["total"] = tot
        bad = []
        validated = 0
        shapes = set()
        samples = []
        for mode, path in files.items():
            ww = os.path.join(d, "w-" + mode)
            shutil.copytree(w, ww)
            v = ck.validate_trace(ww, path, cfg="MemSizeTrace.cfg", module="MemSize.tla")
            shutil.rmtree(ww, ignore_errors=True)
            if not v["ok"]:
                raise ck.ToolError("TLC could not evaluate the size records:\n" + v["tail"])
            recs = [json.loads(x) for x in open(path) if x.strip()]
            validated += len(recs)
            for r in recs:
                if r["kind"] == "value" and (r["alloc"] != 0 or r["abs"].get("es")):
                    shapes.add((r["ty"], json.dumps(r["abs"], sort_keys=True)))
                if len(samples) < 3 and r["kind"] == "value" and r["alloc"] > 0 and len(json.dumps(r)) < 900:
                    samples.append(r)
            for bline in v["bad"]:
                rec = recs[bline["line"] - 1] if 0 < bline["line"] <= len(recs) else {}
                bad.append({"bad": bline["bad"], "ty": bline.get("ty") or rec.get("ty"), "file": mode,
                            "record": rec if len(json.dumps(rec)) < 3000 else {"ty": rec.get("ty")}})
        shutil.rmtree(w, ignore_errors=True)
        for f in files.values():
            os.remove(f)
        return {"gen": gen, "records": validated, "validated": validated, "bad": bad[:400],
                "distinct_shapes": len(shapes), "samples": samples, "total_cases": len(cases),
                "constructors": 12 + 18 + 3}
    return ck.cached("memsize-" + tier, ck.source_hash() + "-" + ck.spec_hash() + "-" + seed +
                     "-" + ck.tree_hash([os.path.join(ms_dir, "src", "probe.rs"),
                                         os.path.join(ms_dir, "src", "main.rs")])[:12], go)


def stage_borrow(tier, ck):
    import shutil
    import sys
    probe = os.path.join(ck.ROOT, "borrowprobe")

    def go(d):
        w = ck.spec_workdir(d)
        p = ck.tlc(w, "Borrow.tla", "Borrow.cfg", workers=1, timeout=600)
        st = ck.parse_tlc_stats(p.stdout)
        if not st["ok"]:
            raise ck.ToolError("Borrow.tla: TLC reports a violation of NoMutationWhileLoaned:\n" + p.stdout[-2000:])
        out = os.path.join(d, "borrow.out")
        with open(out, "w") as fh:
            fh.write(p.stdout)
        gen = os.path.join(ck.ROOT, "tools", "gen_borrow.py")
        ck.run([sys.executable, gen, "gen", out, probe, os.path.join(ck.REPO, "src")], 600)
        q = ck.run([sys.executable, gen, "judge", probe], 3600)
        res = json.loads(q.stdout.strip().splitlines()[-1])
        if res.get("tool_error"):
            raise ck.ToolError("cargo check failed without diagnostics:\n" + res["tool_error"])
        plan = json.load(open(os.path.join(probe, "plan.json")))
        res["samples"] = [plan["accept"][0], plan["reject_bck"][0], plan["reject_ty"][0]]
        res["tlc"] = st
        shutil.rmtree(w, ignore_errors=True)
        os.remove(out)
        return res
    return ck.cached("borrow-" + tier, ck.source_hash() + "-" + ck.spec_hash(), go)


def first_segments(path, n):
    out = []
    with open(path) as fh:
        for raw in fh:
            s = json.loads(raw)
            out.append({"prefix": [o["a"] for o in s["prefix"]], "op": s["op"]["a"],
                        "sweep": s.get("sweep", []), "suffix_len": len(s.get("suffix", []))})
            if len(out) >= n:
                break
    return out


def forget_plan(tier, seed):
    base = [("small", "const", "owned", 2500), ("medium", "default", "borrowed", 2500),
            ("wide", "onebit", "owned", 1500)]
    if tier != "quick":
        base += [("small", "identity", "borrowed", 6000), ("medium", "sip", "owned", 6000),
                 ("wide", "const", "borrowed", 4000), ("churn", "default", "owned", 4000)]
    return [{"profile": p, "hasher": h, "keyform": k, "steps": n, "seed": seed * 1000 + 500 + i,
             "crash_rate": 0.0, "forget_rate": 0.35, "segment": 120}
            for i, (p, h, k, n) in enumerate(base)]


def crash_plan(tier, seed):
    base = [("small", "const", "owned", 2500), ("medium", "onebit", "borrowed", 2500),
            ("wide", "const", "owned", 2000), ("churn", "default", "borrowed", 2000)]
    if tier != "quick":
        base += [("small", "identity", "borrowed", 6000), ("medium", "sip", "owned", 6000),
                 ("wide", "default", "borrowed", 4000), ("churn", "const", "owned", 4000),
                 ("large", "onebit", "owned", 2500)]
    return [{"profile": p, "hasher": h, "keyform": k, "steps": n, "seed": seed * 1000 + 700 + i,
             "crash_rate": 0.06, "forget_rate": 0.0, "segment": 150}
            for i, (p, h, k, n) in enumerate(base)]


def selftest(ck):
    """setup-time self-test of the binding between specification and code: a short trace is
    recorded from the real cache and must be accepted; then one logged field per facet family
    is corrupted (and, separately, one event is removed) and the trace must be REJECTED with
    the matching facet.  A corruption that is not noticed is a tool error."""
    import copy
    import shutil
    import subprocess
    d = os.path.join(ck.CACHE, "selftest")
    shutil.rmtree(d, ignore_errors=True)
    os.makedirs(d)
    w = ck.spec_workdir(d)
    trace = os.path.join(d, "trace.ndjson")
    p = subprocess.run([os.path.join(ck.BIN, "drive"), "--seed", "42", "--steps", "900", "--profile", "medium",
                        "--hasher", "const", "--keyform", "owned", "--events", trace, "--segment", "300"],
                       stdout=subprocess.PIPE, stderr=subprocess.PIPE, text=True, timeout=300)
    if p.returncode != 0:
        print("TOOL-ERROR: selftest driver failed:", p.stderr[-500:])
        return 2
    events = [json.loads(x) for x in open(trace)]
    v = ck.validate_trace(w, trace)
    if not v["ok"] or v["bad"]:
        # on the unchanged tree only known findings may appear here
        bad = [b for b in v["bad"] if any(f != "shrink_raises_with_tombstones" for _, f in b["bad"])]
        if bad or not v["ok"]:
            print("TOOL-ERROR: selftest trace not accepted:", json.dumps(bad)[:600], v["tail"][-600:])
            return 2

    def pick(pred):
        for i, ev in enumerate(events):
            if not ev.get("reset") and pred(ev):
                return i
        return None

    def corrupt(name, idx, fn, want):
        if idx is None:
            return "%s: no suitable event" % name
        evs = copy.deepcopy(events)
        r = fn(evs, idx)
        if r is not None:
            evs = r
        path = os.path.join(d, "corrupt-%s.ndjson" % name)
        with open(path, "w") as fh:
            for ev in evs:
                fh.write(json.dumps(ev) + "\n")
        vv = ck.validate_trace(w, path)
        facets = {f for b in vv["bad"] for _, f in b["bad"]}
        os.remove(path)
        if not (facets & set(want)):
            return "%s: corruption not rejected (facets %s, wanted one of %s)" % (name, sorted(facets), want)
        return None

    def swap_order(evs, i):
        o = evs[i]["st"]["ord"]
        o[0], o[1] = o[1], o[0]

    def bump_cur(evs, i):
        evs[i]["st"]["cur"] += 1
        evs[i]["st"]["hook"]["cur"] += 1

    def ret_tag(evs, i):
        evs[i]["ret"]["tag"] = "None" if evs[i]["ret"]["tag"] == "Some" else "Some"

    def drop_event(evs, i):
        return evs[:i] + evs[i + 1:]

    def break_link(evs, i):
        evs[i]["st"]["hook"]["fwd"][0][2] = -2

    def more_hashes(evs, i):
        evs[i]["counts"]["hash"] += 50

    def lose_drop(evs, i):
        evs[i]["dropped"] = evs[i]["dropped"][1:]

    def cap_change(evs, i):
        evs[i]["st"]["cap"] += 1
        evs[i]["st"]["hook"]["cap"] += 1

    def fp_change(evs, i):
        evs[i]["fp"] = "0" * 16

    problems = [x for x in [
        corrupt("order", pick(lambda e: len(e["st"]["ord"]) >= 2 and e["panic"]["kind"] == "none"
                              and e["a"]["op"] in ("get", "peek", "touch", "get_entry", "contains", "len",
                                                   "peek_entry", "capacity", "insert", "mutate")),
                swap_order, ["order", "C05_Step", "WellFormed", "C19_Step"]),
        corrupt("current_size", pick(lambda e: e["st"]["alive"] and len(e["st"]["ord"]) >= 1), bump_cur,
                ["current_size", "C02_Exact", "sum_recorded"]),
        corrupt("return_value", pick(lambda e: e["a"]["op"] in ("peek", "get", "peek_entry", "get_entry")
                                     and e["ret"]["tag"] in ("Some", "None") and e["panic"]["kind"] == "none"),
                ret_tag, ["ret", "C04_Step"]),
        corrupt("missing_event", pick(lambda e: e["a"]["op"] == "insert" and e["ret"]["tag"] == "OkNone"
                                      and e["i"] > 3), drop_event,
                ["keyset", "C04_Step", "fresh", "C06_Step", "C03_Step"]),
        corrupt("broken_link", pick(lambda e: len(e["st"]["hook"]["fwd"]) >= 2), break_link, ["WellFormed"]),
        corrupt("hash_count", pick(lambda e: e["a"]["op"] in ("get", "peek", "contains", "touch", "insert")
                                   and e["panic"]["kind"] == "none"), more_hashes, ["hashes", "C20_Step"]),
        corrupt("lost_drop", pick(lambda e: len(e["dropped"]) >= 1 and e["a"]["op"] in ("insert", "retain", "clear",
                                                                                     "set_max_size")),
                lose_drop, ["dropped", "C06_Step", "C15_Step"]),
        corrupt("capacity", pick(lambda e: e["a"]["op"] in ("peek", "contains", "len", "peek_entry", "capacity",
                                                           "max_size", "peek_lru", "peek_mru")
                                 and e["st"]["alive"] and e["panic"]["kind"] == "none"), cap_change,
                ["geometry", "C13_Step", "C19_Step", "WellFormed", "C13_CapSane"]),
        corrupt("readonly_fingerprint", pick(lambda e: e["a"]["op"] in ("peek_entry", "peek", "contains", "len",
                                                                       "capacity", "peek_lru", "peek_mru")
                                             and e["st"]["alive"]), fp_change,
                ["fingerprint", "probe_wrote"]),
    ] if x]
    shutil.rmtree(d, ignore_errors=True)
    skipped = [x for x in problems if x.endswith("no suitable event")]
    failed = [x for x in problems if not x.endswith("no suitable event")]
    rejected = 9 - len(problems)
    if failed or rejected < 6:
        print("TOOL-ERROR: binding self-test failed:", "; ".join(problems))
        return 2
    print("selftest ok: accepted the recorded trace, rejected %d corrupted variants%s" %
          (rejected, (" (not exercised by this trace: %s)" % "; ".join(skipped)) if skipped else ""))
    return 0
