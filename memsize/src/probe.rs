//! Generic value generators and structure readers, one impl per supported
//! constructor. `gen` builds a value whose shape (lengths, spare capacity,
//! variants) is drawn from a seeded generator, including builder histories of
//! with_capacity / push / extend / reserve / truncate / shrink steps; `abs`
//! reads the structure back. No size arithmetic here: the sizes are decided by
//! spec/MemSize.tla.

use lru_mem::{HeapSize, MemSize, ValueSize};
use serde_json::{json, Value};

use std::collections::{BinaryHeap, HashMap, HashSet};
use std::ffi::{CStr, CString, OsString};
use std::hash::Hash;
use std::mem::size_of;
use std::num::Wrapping;
use std::ops::{Range, RangeFrom, RangeInclusive, RangeTo, RangeToInclusive};
use std::path::{Path, PathBuf};
use std::sync::{Mutex, RwLock};

use crate::alloc;

/// Small deterministic generator (xorshift).
pub struct G(pub u64);

impl G {
    pub fn next(&mut self) -> u64 {
        let mut x = self.0;
        x ^= x << 13;
        x ^= x >> 7;
        x ^= x << 17;
        self.0 = x;
        x
    }

    pub fn below(&mut self, n: u64) -> u64 {
        if n == 0 { 0 } else { self.next() % n }
    }
}

/// usize as the specification reads it (two's complement).
fn enc(u: usize) -> i64 {
    u as i64
}

pub trait Probe: Sized {
    fn gen(g: &mut G) -> Self;
    fn abs(&self) -> Value;
}

fn leaf(c: &str, sz: usize) -> Value {
    json!({"c": c, "sz": sz, "es": []})
}

macro_rules! base_probe {
    ($t:ty, $name:expr, $gen:expr) => {
        impl Probe for $t {
            fn gen(g: &mut G) -> $t { let f: fn(&mut G) -> $t = $gen; f(g) }
            fn abs(&self) -> Value { leaf($name, size_of::<$t>()) }
        }
    };
}

base_probe!(u8, "u8", |g| g.next() as u8);
base_probe!(u64, "u64", |g| g.next());
base_probe!((), "unit", |_| ());
base_probe!(char, "char", |g| (b'a' + (g.below(26) as u8)) as char);

static WORDS: [&str; 5] = ["", "a", "hello", "lru-mem", "least recently used"];

impl Probe for &'static str {
    fn gen(g: &mut G) -> &'static str { WORDS[g.below(5) as usize] }
    fn abs(&self) -> Value { leaf("RefStr", size_of::<&'static str>()) }
}

/// A byte string built through a random builder history.
fn gen_string(g: &mut G) -> String {
    let mut s = match g.below(3) {
        0 => String::new(),
        1 => String::with_capacity(g.below(40) as usize),
        _ => WORDS[g.below(5) as usize].to_owned()
    };

    for _ in 0..g.below(4) {
        match g.below(6) {
            0 => s.push('x'),
            1 => s.push_str(WORDS[g.below(5) as usize]),
            2 => s.reserve(g.below(30) as usize),
            3 => { let n = g.below(s.len() as u64 + 1) as usize; s.truncate(n); },
            4 => s.shrink_to_fit(),
            _ => s.shrink_to(g.below(20) as usize)
        }
    }

    s
}

impl Probe for String {
    fn gen(g: &mut G) -> String { gen_string(g) }
    fn abs(&self) -> Value {
        json!({"c": "String", "sz": size_of::<String>(), "cap": enc(self.capacity()),
               "len": self.len(), "lh": enc(self.heap_size()), "es": []})
    }
}

impl Probe for OsString {
    fn gen(g: &mut G) -> OsString {
        let mut s = if g.below(2) == 0 { OsString::with_capacity(g.below(40) as usize) }
                    else { OsString::from(gen_string(g)) };
        for _ in 0..g.below(3) {
            match g.below(3) {
                0 => s.push(WORDS[g.below(5) as usize]),
                1 => s.reserve(g.below(30) as usize),
                _ => s.shrink_to_fit()
            }
        }
        s
    }
    fn abs(&self) -> Value {
        json!({"c": "OsString", "sz": size_of::<OsString>(), "cap": enc(self.capacity()),
               "len": self.len(), "lh": enc(self.heap_size()), "es": []})
    }
}

impl Probe for PathBuf {
    fn gen(g: &mut G) -> PathBuf {
        let mut p = match g.below(3) {
            0 => PathBuf::new(),
            1 => PathBuf::with_capacity(g.below(100) as usize),
            _ => PathBuf::from(WORDS[g.below(5) as usize])
        };
        for _ in 0..g.below(3) {
            match g.below(4) {
                0 => p.push(WORDS[1 + g.below(4) as usize]),
                1 => p.reserve(g.below(50) as usize),
                2 => { p.pop(); },
                _ => p.shrink_to_fit()
            }
        }
        p
    }
    fn abs(&self) -> Value {
        json!({"c": "PathBuf", "sz": size_of::<PathBuf>(), "cap": enc(self.capacity()),
               "len": self.as_os_str().len(), "lh": enc(self.heap_size()), "es": []})
    }
}

impl Probe for CString {
    fn gen(g: &mut G) -> CString { CString::new(WORDS[g.below(5) as usize]).unwrap() }
    fn abs(&self) -> Value {
        json!({"c": "CString", "sz": size_of::<CString>(), "len": self.as_bytes().len(), "lh": enc(self.heap_size()), "es": []})
    }
}

impl Probe for Box<str> {
    fn gen(g: &mut G) -> Box<str> { gen_string(g).into_boxed_str() }
    fn abs(&self) -> Value {
        json!({"c": "BoxStr", "sz": size_of::<Box<str>>(), "len": self.len(), "lh": enc(self.heap_size()), "es": []})
    }
}

impl Probe for Box<CStr> {
    fn gen(g: &mut G) -> Box<CStr> {
        CString::new(WORDS[g.below(5) as usize]).unwrap().into_boxed_c_str()
    }
    fn abs(&self) -> Value {
        json!({"c": "BoxCStr", "sz": size_of::<Box<CStr>>(), "len": self.to_bytes().len(), "lh": enc(self.heap_size()), "es": []})
    }
}

impl Probe for Box<Path> {
    fn gen(g: &mut G) -> Box<Path> { PathBuf::from(WORDS[g.below(5) as usize]).into_boxed_path() }
    fn abs(&self) -> Value {
        json!({"c": "BoxPath", "sz": size_of::<Box<Path>>(), "len": self.as_os_str().len(), "lh": enc(self.heap_size()), "es": []})
    }
}

/// A vector built through a random builder history.
pub fn gen_vec<T: Probe>(g: &mut G) -> Vec<T> {
    let mut v: Vec<T> = match g.below(3) {
        0 => Vec::new(),
        1 => Vec::with_capacity(g.below(9) as usize),
        _ => (0..g.below(4)).map(|_| T::gen(g)).collect()
    };

    for _ in 0..g.below(4) {
        match g.below(6) {
            0 => v.push(T::gen(g)),
            1 => { let k = g.below(3); v.extend((0..k).map(|_| T::gen(g))); },
            2 => v.reserve(g.below(10) as usize),
            3 => { let n = g.below(v.len() as u64 + 1) as usize; v.truncate(n); },
            4 => v.shrink_to_fit(),
            _ => v.shrink_to(g.below(6) as usize)
        }
    }

    v
}

impl<T: Probe> Probe for Vec<T> {
    fn gen(g: &mut G) -> Vec<T> { gen_vec(g) }
    fn abs(&self) -> Value {
        json!({"c": "Vec", "sz": size_of::<Vec<T>>(), "cap": enc(self.capacity()), "len": self.len(),
               "esz": size_of::<T>(), "es": self.iter().map(|e| e.abs()).collect::<Vec<_>>()})
    }
}

impl<T: Probe + Ord> Probe for BinaryHeap<T> {
    fn gen(g: &mut G) -> BinaryHeap<T> {
        let mut h = BinaryHeap::from(gen_vec::<T>(g));
        for _ in 0..g.below(3) {
            match g.below(4) {
                0 => h.push(T::gen(g)),
                1 => h.reserve(g.below(10) as usize),
                2 => { h.pop(); },
                _ => h.shrink_to_fit()
            }
        }
        h
    }
    fn abs(&self) -> Value {
        json!({"c": "BinaryHeap", "sz": size_of::<BinaryHeap<T>>(), "cap": enc(self.capacity()),
               "len": self.len(), "esz": size_of::<T>(),
               "es": self.iter().map(|e| e.abs()).collect::<Vec<_>>()})
    }
}

impl<T: Probe + Hash + Eq> Probe for HashSet<T> {
    fn gen(g: &mut G) -> HashSet<T> {
        let mut s = if g.below(2) == 0 { HashSet::new() } else { HashSet::with_capacity(g.below(20) as usize) };
        for _ in 0..g.below(6) { s.insert(T::gen(g)); }
        if g.below(3) == 0 { s.shrink_to_fit(); }
        if g.below(3) == 0 { s.reserve(g.below(30) as usize); }
        s
    }
    fn abs(&self) -> Value {
        json!({"c": "HashSet", "sz": size_of::<HashSet<T>>(), "cap": enc(self.capacity()),
               "len": self.len(), "esz": size_of::<T>(),
               "es": self.iter().map(|e| e.abs()).collect::<Vec<_>>()})
    }
}

impl<K: Probe + Hash + Eq, V: Probe> Probe for HashMap<K, V> {
    fn gen(g: &mut G) -> HashMap<K, V> {
        let mut m = if g.below(2) == 0 { HashMap::new() } else { HashMap::with_capacity(g.below(20) as usize) };
        for _ in 0..g.below(6) { m.insert(K::gen(g), V::gen(g)); }
        if g.below(3) == 0 { m.shrink_to_fit(); }
        if g.below(3) == 0 { m.reserve(g.below(30) as usize); }
        m
    }
    fn abs(&self) -> Value {
        let mut es = Vec::new();
        for (k, v) in self.iter() {
            es.push(k.abs());
            es.push(v.abs());
        }
        json!({"c": "HashMap", "sz": size_of::<HashMap<K, V>>(), "cap": enc(self.capacity()),
               "len": self.len(), "psz": size_of::<(K, V)>(), "es": es})
    }
}

impl<T: Probe> Probe for Box<T> {
    fn gen(g: &mut G) -> Box<T> { Box::new(T::gen(g)) }
    fn abs(&self) -> Value {
        json!({"c": "Box", "sz": size_of::<Box<T>>(), "es": [(**self).abs()]})
    }
}

impl<T: Probe> Probe for Box<[T]> {
    fn gen(g: &mut G) -> Box<[T]> { gen_vec::<T>(g).into_boxed_slice() }
    fn abs(&self) -> Value {
        json!({"c": "BoxSlice", "sz": size_of::<Box<[T]>>(), "len": self.len(), "esz": size_of::<T>(),
               "es": self.iter().map(|e| e.abs()).collect::<Vec<_>>()})
    }
}

impl<T: Probe> Probe for Option<T> {
    fn gen(g: &mut G) -> Option<T> { if g.below(3) == 0 { None } else { Some(T::gen(g)) } }
    fn abs(&self) -> Value {
        json!({"c": "Option", "sz": size_of::<Option<T>>(),
               "es": self.iter().map(|e| e.abs()).collect::<Vec<_>>()})
    }
}

impl<T: Probe, E: Probe> Probe for Result<T, E> {
    fn gen(g: &mut G) -> Result<T, E> { if g.below(2) == 0 { Ok(T::gen(g)) } else { Err(E::gen(g)) } }
    fn abs(&self) -> Value {
        let (variant, child) = match self {
            Ok(v) => ("Ok", v.abs()),
            Err(e) => ("Err", e.abs())
        };
        json!({"c": "Result", "sz": size_of::<Result<T, E>>(), "variant": variant, "es": [child]})
    }
}

impl<T: Probe> Probe for Wrapping<T> {
    fn gen(g: &mut G) -> Wrapping<T> { Wrapping(T::gen(g)) }
    fn abs(&self) -> Value {
        json!({"c": "Wrapping", "sz": size_of::<Wrapping<T>>(), "es": [self.0.abs()]})
    }
}

impl<T: Probe> Probe for Range<T> {
    fn gen(g: &mut G) -> Range<T> { T::gen(g)..T::gen(g) }
    fn abs(&self) -> Value {
        json!({"c": "Range", "sz": size_of::<Range<T>>(), "es": [self.start.abs(), self.end.abs()]})
    }
}

impl<T: Probe> Probe for RangeFrom<T> {
    fn gen(g: &mut G) -> RangeFrom<T> { T::gen(g).. }
    fn abs(&self) -> Value {
        json!({"c": "RangeFrom", "sz": size_of::<RangeFrom<T>>(), "es": [self.start.abs()]})
    }
}

impl<T: Probe> Probe for RangeTo<T> {
    fn gen(g: &mut G) -> RangeTo<T> { ..T::gen(g) }
    fn abs(&self) -> Value {
        json!({"c": "RangeTo", "sz": size_of::<RangeTo<T>>(), "es": [self.end.abs()]})
    }
}

impl<T: Probe> Probe for RangeInclusive<T> {
    fn gen(g: &mut G) -> RangeInclusive<T> { T::gen(g)..=T::gen(g) }
    fn abs(&self) -> Value {
        json!({"c": "RangeInclusive", "sz": size_of::<RangeInclusive<T>>(),
               "es": [self.start().abs(), self.end().abs()]})
    }
}

impl<T: Probe> Probe for RangeToInclusive<T> {
    fn gen(g: &mut G) -> RangeToInclusive<T> { ..=T::gen(g) }
    fn abs(&self) -> Value {
        json!({"c": "RangeToInclusive", "sz": size_of::<RangeToInclusive<T>>(), "es": [self.end.abs()]})
    }
}

impl<T: Probe> Probe for Mutex<T> {
    fn gen(g: &mut G) -> Mutex<T> { Mutex::new(T::gen(g)) }
    fn abs(&self) -> Value {
        json!({"c": "Mutex", "sz": size_of::<Mutex<T>>(), "es": [self.lock().unwrap().abs()]})
    }
}

impl<T: Probe> Probe for RwLock<T> {
    fn gen(g: &mut G) -> RwLock<T> { RwLock::new(T::gen(g)) }
    fn abs(&self) -> Value {
        json!({"c": "RwLock", "sz": size_of::<RwLock<T>>(), "es": [self.read().unwrap().abs()]})
    }
}

impl<T: Probe> Probe for [T; 0] {
    fn gen(_: &mut G) -> [T; 0] { [] }
    fn abs(&self) -> Value { json!({"c": "Array0", "sz": size_of::<[T; 0]>(), "es": []}) }
}

impl<T: Probe> Probe for [T; 1] {
    fn gen(g: &mut G) -> [T; 1] { [T::gen(g)] }
    fn abs(&self) -> Value {
        json!({"c": "Array1", "sz": size_of::<[T; 1]>(), "es": self.iter().map(|e| e.abs()).collect::<Vec<_>>()})
    }
}

impl<T: Probe> Probe for [T; 3] {
    fn gen(g: &mut G) -> [T; 3] { [T::gen(g), T::gen(g), T::gen(g)] }
    fn abs(&self) -> Value {
        json!({"c": "Array3", "sz": size_of::<[T; 3]>(), "es": self.iter().map(|e| e.abs()).collect::<Vec<_>>()})
    }
}

macro_rules! tuple_probe {
    ($name:expr; $($t:ident),+) => {
        impl<$($t: Probe),+> Probe for ($($t,)+) {
            fn gen(g: &mut G) -> ($($t,)+) { ($($t::gen(g),)+) }
            #[allow(non_snake_case)]
            fn abs(&self) -> Value {
                let ($($t,)+) = self;
                json!({"c": $name, "sz": size_of::<($($t,)+)>(), "es": [$($t.abs()),+]})
            }
        }
    };
}

tuple_probe!("Tuple1"; A);
tuple_probe!("Tuple2"; A, B);
tuple_probe!("Tuple3"; A, B, C);
tuple_probe!("Tuple4"; A, B, C, D);
tuple_probe!("Tuple5"; A, B, C, D, E);
tuple_probe!("Tuple6"; A, B, C, D, E, F);
tuple_probe!("Tuple7"; A, B, C, D, E, F, H);
tuple_probe!("Tuple8"; A, B, C, D, E, F, H, I);
tuple_probe!("Tuple9"; A, B, C, D, E, F, H, I, J);
tuple_probe!("Tuple10"; A, B, C, D, E, F, H, I, J, K);

// ---------------------------------------------------------------------------
// records

/// One record per generated value of T: the abstract structure, what the crate
/// computed, and what the allocator attributes to the value.
pub fn value_records<T: Probe + MemSize>(ty: &str, seed: u64, reps: u64, out: &mut Vec<Value>) {
    for r in 0..reps {
        let mut g = G(seed.wrapping_mul(0x9E3779B97F4A7C15).wrapping_add(r + 1) | 1);
        alloc::track_start();
        let v = T::gen(&mut g);
        let held = alloc::track_live();
        alloc::track_stop();
        let rec = json!({"kind": "value", "ty": ty, "rep": r, "abs": v.abs(),
            "value": v.value_size(), "heap": enc(v.heap_size()), "mem": enc(v.mem_size()),
            "alloc": held});
        out.push(rec);
    }
}

/// A lock that another thread holds at the moment it is measured: the estimate has to wait for
/// the holder and then add up the parts like for any other value (the record is an ordinary value
/// record; the abstract structure is read after the holder let go).
pub fn held_lock_records(seed: u64, out: &mut Vec<Value>) {
    fn with_holder<L: Sync, R>(lock: &L, hold: impl Fn(&L, &std::sync::mpsc::Sender<()>) + Send + Sync,
            measure: impl FnOnce(&L) -> R) -> R {
        let (tx, rx) = std::sync::mpsc::channel::<()>();
        std::thread::scope(|sc| {
            let hold = &hold;
            sc.spawn(move || hold(lock, &tx));
            rx.recv().unwrap();
            measure(lock)
        })
    }

    fn rec<L: Probe + MemSize>(ty: &str, r: u64, v: &L, held: isize, sizes: (usize, usize, usize)) -> Value {
        json!({"kind": "value", "ty": ty, "rep": r, "abs": v.abs(),
            "value": sizes.0, "heap": enc(sizes.1), "mem": enc(sizes.2), "alloc": held})
    }

    let pause = std::time::Duration::from_millis(25);

    for r in 0..3u64 {
        let mut g = G(seed.wrapping_mul(0xA24BAED4963EE407).wrapping_add(r + 3) | 1);

        alloc::track_start();
        let m: Mutex<Vec<String>> = Probe::gen(&mut g);
        let held = alloc::track_live();
        alloc::track_stop();
        let sizes = with_holder(&m,
            |l, tx| { let _guard = l.lock().unwrap(); tx.send(()).unwrap(); std::thread::sleep(pause); },
            |l| (l.value_size(), l.heap_size(), l.mem_size()));
        out.push(rec("Mutex(Vec(String))@held", r, &m, held, sizes));

        alloc::track_start();
        let w: RwLock<(String, Box<str>)> = Probe::gen(&mut g);
        let held = alloc::track_live();
        alloc::track_stop();
        let sizes = with_holder(&w,
            |l, tx| { let _guard = l.write().unwrap(); tx.send(()).unwrap(); std::thread::sleep(pause); },
            |l| (l.value_size(), l.heap_size(), l.mem_size()));
        out.push(rec("RwLock(Tuple2(String,BoxStr))@held", r, &w, held, sizes));

        alloc::track_start();
        let v: Vec<Mutex<String>> = (0..3).map(|_| Probe::gen(&mut g)).collect();
        let held = alloc::track_live();
        alloc::track_stop();
        let sizes = with_holder(&v,
            |l, tx| {
                let _guards: Vec<_> = l.iter().map(|m| m.lock().unwrap()).collect();
                tx.send(()).unwrap();
                std::thread::sleep(pause);
            },
            |l| (l.value_size(), l.heap_size(), l.mem_size()));
        out.push(rec("Vec(Mutex(String))@held", r, &v, held, sizes));
    }
}

/// The four bulk helpers over differently shaped iterators of a Vec<T>.
pub fn bulk_records<T: Probe + MemSize>(ty: &str, seed: u64, out: &mut Vec<Value>) {
    for r in 0..2u64 {
        let mut g = G(seed.wrapping_mul(0xD1B54A32D192ED03).wrapping_add(r + 7) | 1);
        let n = if r == 0 { g.below(4) } else { 3 + g.below(4) } as usize;
        let xs: Vec<T> = (0..n).map(|_| T::gen(&mut g)).collect();
        let abs = xs.abs();
        let a = g.below(n as u64 + 1) as usize;
        let b = a + g.below((n - a) as u64 + 1) as usize;
        let k = g.below(n as u64 + 2) as usize;
        let idx = |f: &dyn Fn(usize) -> bool| -> Vec<usize> { (0..n).filter(|i| f(*i)).collect() };
        let mut emit = |shape: &str, sel: Vec<usize>, hs: usize, hse: i64, vs: usize, vse: i64| {
            out.push(json!({"kind": "bulk", "ty": ty, "shape": shape, "sel": sel, "abs": abs,
                "hs_iter": enc(hs), "hs_exact": hse, "vs_iter": enc(vs), "vs_exact": vse}));
        };

        emit("full", idx(&|_| true),
             T::heap_size_sum_iter(|| xs.iter()), enc(T::heap_size_sum_exact_size_iter(|| xs.iter())),
             T::value_size_sum_iter(xs.iter()), enc(T::value_size_sum_exact_size_iter(xs.iter())));
        emit("rev", idx(&|_| true).into_iter().rev().collect(),
             T::heap_size_sum_iter(|| xs.iter().rev()),
             enc(T::heap_size_sum_exact_size_iter(|| xs.iter().rev())),
             T::value_size_sum_iter(xs.iter().rev()),
             enc(T::value_size_sum_exact_size_iter(xs.iter().rev())));
        emit("subslice", idx(&|i| i >= a && i < b),
             T::heap_size_sum_iter(|| xs[a..b].iter()),
             enc(T::heap_size_sum_exact_size_iter(|| xs[a..b].iter())),
             T::value_size_sum_iter(xs[a..b].iter()),
             enc(T::value_size_sum_exact_size_iter(xs[a..b].iter())));
        emit("take", idx(&|i| i < k),
             T::heap_size_sum_iter(|| xs.iter().take(k)),
             enc(T::heap_size_sum_exact_size_iter(|| xs.iter().take(k))),
             T::value_size_sum_iter(xs.iter().take(k)),
             enc(T::value_size_sum_exact_size_iter(xs.iter().take(k))));
        emit("map", idx(&|_| true),
             T::heap_size_sum_iter(|| xs.iter().map(|x| x)),
             enc(T::heap_size_sum_exact_size_iter(|| xs.iter().map(|x| x))),
             T::value_size_sum_iter(xs.iter().map(|x| x)),
             enc(T::value_size_sum_exact_size_iter(xs.iter().map(|x| x))));
        // shapes without an exact size: filtered and chained
        emit("filter", idx(&|i| i % 2 == 0),
             T::heap_size_sum_iter(|| xs.iter().enumerate().filter(|(i, _)| i % 2 == 0).map(|(_, x)| x)),
             -1,
             T::value_size_sum_iter(xs.iter().enumerate().filter(|(i, _)| i % 2 == 0).map(|(_, x)| x)),
             -1);
        emit("chain", idx(&|i| i < a || i >= b),
             T::heap_size_sum_iter(|| xs[..a].iter().chain(xs[b..].iter())),
             -1,
             T::value_size_sum_iter(xs[..a].iter().chain(xs[b..].iter())),
             -1);
    }
}

// ---------------------------------------------------------------------------
// totality: large element counts on a small stack

fn total_of<T: MemSize>(ty: &str, xs: Vec<T>) -> Value {
    // element-wise reference sum (plain loop), then the crate's own computation
    let mut expect = xs.capacity() * size_of::<T>();
    for x in xs.iter() {
        expect += x.heap_size();
    }
    let heap = xs.heap_size();
    let bulk = T::heap_size_sum_exact_size_iter(|| xs.iter());
    let bulk2 = T::heap_size_sum_iter(|| xs.iter());
    let vs = T::value_size_sum_iter(xs.iter());
    let ok = bulk + xs.capacity() * size_of::<T>() == expect && bulk2 == bulk
        && vs == xs.len() * size_of::<T>();
    json!({"kind": "total", "ty": ty, "n": xs.len(), "status": if ok { "ok" } else { "mismatch" },
           "heap": enc(heap), "expect": enc(expect)})
}

pub fn total(case: &str, n: usize) -> Value {
    match case {
        "Vec<[String;0]>" => total_of(case, (0..n).map(|_| -> [String; 0] { [] }).collect()),
        "Vec<[u8;0]>" => total_of(case, (0..n).map(|_| -> [u8; 0] { [] }).collect()),
        "Vec<[[String;0];3]>" => total_of(case, (0..n).map(|_| -> [[String; 0]; 3] { [[], [], []] }).collect()),
        "Vec<[String;1]>" => total_of(case, (0..n).map(|i| [format!("{}", i % 10)]).collect()),
        "Vec<Box<u64>>" => total_of(case, (0..n).map(|i| Box::new(i as u64)).collect()),
        "Vec<(String,u8)>" => total_of(case, (0..n).map(|i| (String::new(), i as u8)).collect()),
        "Vec<Option<String>>" => total_of(case, (0..n).map(|i| if i % 2 == 0 { None } else { Some("x".to_owned()) }).collect()),
        "Vec<Vec<u8>>" => total_of(case, (0..n).map(|i| vec![0u8; i % 3]).collect()),
        "Vec<Box<[[u8;0]]>>" => total_of(case, (0..n / 100 + 1).map(|_| vec![[0u8; 0]; 100].into_boxed_slice()).collect()),
        "Vec<Wrapping<[String;0]>>" => total_of(case, (0..n).map(|_| Wrapping::<[String; 0]>([])).collect()),
        "Vec<u64>" => total_of(case, (0..n).map(|i| i as u64).collect()),
        _ => json!({"kind": "total", "ty": case, "status": "unknown_case", "heap": 0, "expect": 0})
    }
}

pub const TOTAL_CASES: [&str; 11] = ["Vec<[String;0]>", "Vec<[u8;0]>", "Vec<[[String;0];3]>",
    "Vec<[String;1]>", "Vec<Box<u64>>", "Vec<(String,u8)>", "Vec<Option<String>>", "Vec<Vec<u8>>",
    "Vec<Box<[[u8;0]]>>", "Vec<Wrapping<[String;0]>>", "Vec<u64>"];
