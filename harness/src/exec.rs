//! Executor (one specification-level operation on the real cache) and
//! projector (real cache -> the specification's state shape, as JSON).

use crate::alloc;
use crate::types::*;

use lru_mem::{entry_size, InsertError, LruCache, MutateError, TryInsertError, VerifSnapshot};

use serde_json::{json, Value};

use std::collections::{BTreeMap, HashMap, HashSet};
use std::hash::{Hash, Hasher};
use std::panic::{catch_unwind, AssertUnwindSafe};

pub type Cache = LruCache<TKey, TVal, HB>;

/// One call on an iterator (the letters of the specification's iterator words).
#[derive(Clone, Copy, Debug, PartialEq, Eq)]
pub enum Letter {
    Next,
    NextBack,
    Nth(usize),
    NthBack(usize)
}

impl Letter {
    pub fn parse(s: &str) -> Letter {
        match s {
            "n" => Letter::Next,
            "b" => Letter::NextBack,
            _ => {
                let j = s[1..].parse::<usize>().unwrap_or(0);
                if s.starts_with('s') { Letter::Nth(j) } else { Letter::NthBack(j) }
            }
        }
    }

    pub fn step<I: DoubleEndedIterator>(&self, it: &mut I) -> Option<I::Item> {
        match *self {
            Letter::Next => it.next(),
            Letter::NextBack => it.next_back(),
            Letter::Nth(j) => it.nth(j),
            Letter::NthBack(j) => it.nth_back(j)
        }
    }
}

#[derive(Clone, Copy, Debug, PartialEq, Eq)]
pub enum KeyForm {
    Owned,
    Borrowed
}

#[derive(Clone, Debug)]
pub struct Config {
    pub hasher: String,
    pub keyform: KeyForm,
    /// Key ids 1..=universe are probed after every step.
    pub universe: u32,
    pub seed: u64,
    /// Log the structural hook in full (needed by trace validation).
    pub full_hook: bool,
    /// Project the caches only after every n-th call (1 = always). Used by the
    /// large-scale self-consistency runs, where only the structural facets are
    /// evaluated and object identities are not tracked.
    pub project_every: u64
}

/// usize as the specification reads it: two's complement, so that values near
/// usize::MAX become small negative numbers.
pub fn enc(u: usize) -> i64 {
    u as i64
}

pub fn dec(v: &Value) -> usize {
    v.as_i64().unwrap_or(0) as usize
}

fn marker(kind: &str, k: i64) -> Value {
    json!([kind, k])
}

fn no_marker() -> Value {
    json!(["-", 0])
}

/// The projection of one cache.
pub struct Proj {
    pub alive: bool,
    /// false if the structure is so broken that the public traversal was not
    /// attempted (the hook found an open or inconsistent list).
    pub traversable: bool,
    /// rows LRU -> MRU: (key id, key heap, value heap, entry_size, key tok, value tok,
    /// bucket holding the iterated key, bucket holding the key peek_entry finds)
    pub rows: Vec<(u32, u32, usize, usize, u64, u64, i64, i64)>,
    pub rev: Vec<u32>,
    pub keys_fwd: Vec<u32>,
    pub vals_fwd: Vec<u64>,
    pub len: usize,
    pub is_empty: bool,
    pub cur: usize,
    pub max: usize,
    pub cap: usize,
    pub lru: u32,
    pub mru: u32,
    pub hook: Option<VerifSnapshot>,
    pub dead_refs: Vec<u64>
}

fn bucket_of(hook: &VerifSnapshot, addr: usize) -> i64 {
    // the node whose storage contains the address
    for n in hook.lru_to_mru.iter().chain(hook.mru_to_lru.iter()) {
        if addr >= n.addr && addr < n.addr + hook.stride {
            return n.bucket as i64;
        }
    }

    for (i, a) in hook.full.iter().enumerate() {
        if addr >= *a && addr < *a + hook.stride {
            // occupied bucket that is not on the list: report as -(3 + i)
            return -3 - i as i64;
        }
    }

    -2
}

fn link_bucket(hook: &VerifSnapshot, addr: usize) -> i64 {
    if addr == hook.seal {
        return -1;
    }

    for n in hook.lru_to_mru.iter().chain(hook.mru_to_lru.iter()) {
        if n.addr == addr {
            return n.bucket as i64;
        }
    }

    -2
}

pub fn hook_fingerprint(hook: &VerifSnapshot) -> String {
    let mut h = std::collections::hash_map::DefaultHasher::new();
    hook.seal.hash(&mut h);
    hook.seal_prev.hash(&mut h);
    hook.seal_next.hash(&mut h);
    hook.table.hash(&mut h);
    hook.buckets.hash(&mut h);
    hook.items.hash(&mut h);
    hook.capacity.hash(&mut h);
    hook.current_size.hash(&mut h);
    hook.max_size.hash(&mut h);
    hook.full.hash(&mut h);

    for n in hook.lru_to_mru.iter().chain(hook.mru_to_lru.iter()) {
        (n.addr, n.bucket, n.size, n.prev, n.next).hash(&mut h);
    }

    (hook.lru_to_mru_closed, hook.mru_to_lru_closed).hash(&mut h);
    format!("{:016x}", h.finish())
}

pub fn project(cache: &Cache) -> Proj {
    let hook = cache.verif_snapshot();
    let traversable = hook.lru_to_mru_closed && hook.mru_to_lru_closed
        && hook.lru_to_mru.len() == hook.items && hook.mru_to_lru.len() == hook.items;
    let mut p = Proj {
        alive: true,
        traversable,
        rows: Vec::new(),
        rev: Vec::new(),
        keys_fwd: Vec::new(),
        vals_fwd: Vec::new(),
        len: cache.len(),
        is_empty: cache.is_empty(),
        cur: cache.current_size(),
        max: cache.max_size(),
        cap: cache.capacity(),
        lru: 0,
        mru: 0,
        hook: None,
        dead_refs: Vec::new()
    };

    if traversable {
        for (k, v) in cache.iter() {
            let nb = bucket_of(&hook, k as *const TKey as usize);

            for tok in [k.tok, v.tok] {
                if !matches!(reg_state(tok), Some(TokState::Live) | Some(TokState::Untracked)) {
                    p.dead_refs.push(tok);
                }
            }

            p.rows.push((k.id.0, k.heap, v.heap, 0, k.tok, v.tok, nb, -2));
        }

        // entry_size and peek_entry call back into user code (size, hash, eq);
        // they are performed after the traversal has been recorded
        let ids: Vec<u32> = p.rows.iter().map(|r| r.0).collect();

        for (i, (k, v)) in cache.iter().enumerate() {
            if i < p.rows.len() {
                p.rows[i].3 = entry_size(k, v);
            }
        }

        for (i, id) in ids.iter().enumerate() {
            p.rows[i].7 = match cache.peek_entry(&KeyId(*id)) {
                Some((k, _)) => bucket_of(&hook, k as *const TKey as usize),
                None => -2
            };
        }

        p.rev = cache.iter().rev().map(|(k, _)| k.id.0).collect();
        p.keys_fwd = cache.keys().map(|k| k.id.0).collect();
        p.vals_fwd = cache.values().map(|v| v.tok).collect();
        p.lru = cache.peek_lru().map(|(k, _)| k.id.0).unwrap_or(0);
        p.mru = cache.peek_mru().map(|(k, _)| k.id.0).unwrap_or(0);
    }

    p.hook = Some(hook);
    p
}

fn dead_proj() -> Proj {
    Proj {
        alive: false,
        traversable: true,
        rows: Vec::new(),
        rev: Vec::new(),
        keys_fwd: Vec::new(),
        vals_fwd: Vec::new(),
        len: 0,
        is_empty: true,
        cur: 0,
        max: 0,
        cap: 0,
        lru: 0,
        mru: 0,
        hook: None,
        dead_refs: Vec::new()
    }
}

type TokMap = HashMap<u64, (char, u32)>;

/// Shared-reference operations are executed a second time with the cache's own
/// memory (table allocation and seal) mapped READ-ONLY: a `&self` method that
/// writes - even if it restores what it wrote, so that no before/after comparison
/// can see it - dies with SIGSEGV. The step number is kept in a file while the
/// protection is on, so that the parent process can tell why the child died.
pub struct RoGuard {
    pub file: std::fs::File,
    pub windows: u64
}

fn page_span(start: usize, end: usize) -> (usize, usize) {
    let page = 4096usize;
    (start & !(page - 1), (end + page - 1) & !(page - 1))
}

impl RoGuard {
    fn mark(&mut self, n: u64) {
        use std::io::{Seek, SeekFrom, Write};
        let _ = self.file.seek(SeekFrom::Start(0));
        let _ = write!(self.file, "{:<20}", n);
    }

    /// Runs `f` (which must not allocate and must not write to the heap itself)
    /// while the cache's memory is read-only.
    fn with_protected<F: FnOnce()>(&mut self, cache: &Cache, step: u64, f: F) {
        let snap = cache.verif_snapshot();
        let mut spans: Vec<(usize, usize)> = Vec::with_capacity(2);
        spans.push(page_span(snap.seal, snap.seal + snap.stride));

        if snap.buckets > 1 && snap.stride > 0 {
            let start = snap.table - snap.buckets * snap.stride;
            let end = snap.table + snap.buckets + 16;
            spans.push(page_span(start, end));
        }

        drop(snap);
        self.mark(step);
        self.windows += 1;

        unsafe {
            for (a, b) in spans.iter() {
                libc::mprotect(*a as *mut libc::c_void, b - a, libc::PROT_READ);
            }
        }

        f();

        unsafe {
            for (a, b) in spans.iter() {
                libc::mprotect(*a as *mut libc::c_void, b - a, libc::PROT_READ | libc::PROT_WRITE);
            }
        }

        self.mark(0);
    }
}

pub struct Session {
    pub roguard: Option<RoGuard>,
    pub cfg: Config,
    pub hb: HB,
    pub caches: BTreeMap<u32, Cache>,
    prev: BTreeMap<u32, TokMap>,
    prev_fp: BTreeMap<u32, String>,
    pub step: u64
}

struct CallOut {
    ret: Value,
    handed: Vec<u64>,
    /// objects returned by the call, kept alive until the drop window closed
    _keep: Vec<Box<dyn std::any::Any>>
}

fn ret_json(tag: &str) -> Value {
    json!({"tag": tag, "a": 0, "b": 0, "c": 0, "key": no_marker(), "val": no_marker(),
           "d": 0, "seq": []})
}

impl Session {
    pub fn new(cfg: Config) -> Session {
        let hb = HB::from_name(&cfg.hasher, cfg.seed).expect("unknown hasher");
        Session {
            roguard: None,
            cfg,
            hb,
            caches: BTreeMap::new(),
            prev: BTreeMap::new(),
            prev_fp: BTreeMap::new(),
            step: 0
        }
    }

    /// Resolves a token to an identity marker relative to the state of cache
    /// `c` after the previous step.
    fn resolve(&self, c: u32, tok: u64, argk: u64, argv: u64) -> Value {
        if tok != 0 && tok == argk {
            return marker("AK", 0);
        }

        if tok != 0 && tok == argv {
            return marker("AV", 0);
        }

        if let Some(m) = self.prev.get(&c) {
            if let Some((kind, k)) = m.get(&tok) {
                return marker(&kind.to_string(), *k as i64);
            }
        }

        // an object held by another cache before the call
        for (d, m) in self.prev.iter() {
            if *d != c {
                if let Some((kind, k)) = m.get(&tok) {
                    return marker(&format!("X{}", kind), (*k as i64) * 100 + *d as i64);
                }
            }
        }

        // a fresh clone of an object of this cache
        if let Some(m) = self.prev.get(&c) {
            if let Some(o) = reg_origin(tok) {
                if let Some((kind, k)) = m.get(&o) {
                    return marker(&format!("C{}", kind), *k as i64);
                }
            }
        }

        marker("?", (tok % 1_000_000) as i64)
    }

    /// Executes one operation and returns the event describing it.
    pub fn exec(&mut self, op: &Value) -> Value {
        self.step += 1;
        let c = op["c"].as_u64().unwrap_or(1) as u32;
        let d = op["d"].as_u64().unwrap_or(0) as u32;
        let a = &op["a"];
        let name = a["op"].as_str().unwrap_or("").to_string();
        let k = a["k"].as_u64().unwrap_or(0) as u32;
        let kh = a["kh"].as_u64().unwrap_or(0) as u32;
        let vs = a["vs"].as_u64().unwrap_or(0) as usize;
        let n = dec(&a["n"]);
        let fl = a["fl"].as_bool().unwrap_or(false);
        let cd = a["cd"].as_i64().unwrap_or(0);
        let keep: HashSet<u32> = a["keep"].as_array()
            .map(|v| v.iter().map(|x| x.as_u64().unwrap_or(0) as u32).collect())
            .unwrap_or_default();
        let word: Vec<Letter> = a["w"].as_array()
            .map(|v| v.iter().map(|x| Letter::parse(x.as_str().unwrap_or("n"))).collect())
            .unwrap_or_default();
        let crash = &op["crash"];
        let crash_kind = crash["kind"].as_str().unwrap_or("").to_string();
        let crash_n = crash["n"].as_u64().unwrap_or(0) as u32;
        let borrowed = self.cfg.keyform == KeyForm::Borrowed;
        let hb = self.hb.clone();

        // lifecycle operations that need the map of caches
        let mut argk = 0u64;
        let mut argv = 0u64;
        let mut closure_calls: Vec<(u32, u64, u64)> = Vec::new();

        counts_reset();
        let _ = reg_anomalies_take();
        reg_window_start();

        if let Some(kind) = kind_from_name(&crash_kind) {
            if crash_n > 0 {
                arm(kind, crash_n);
            }
        }

        let mut created: Option<(u32, Cache)> = None;
        // allocation-failure sweep: refuse exactly the n-th allocation of a try_reserve
        let alloc_nth: u32 = if crash_kind == "alloc" { crash_n } else { 0 };
        let mut refusals: usize = 0;

        let result = {
            let caches = &mut self.caches;
            let closure_calls = &mut closure_calls;
            let argk = &mut argk;
            let argv = &mut argv;
            let created = &mut created;
            let refusals = &mut refusals;
            let crash_after = crash_kind == "closure_after";

            catch_unwind(AssertUnwindSafe(move || -> CallOut {
                let mut out = CallOut { ret: ret_json("unit"), handed: Vec::new(), _keep: Vec::new() };

                match name.as_str() {
                    "new" => {
                        let cache = if kh == 0 && !fl {
                            Cache::with_hasher(n, hb.clone())
                        }
                        else {
                            Cache::with_capacity_and_hasher(n, kh as usize, hb.clone())
                        };
                        *created = Some((c, cache));
                        out.ret = ret_json("int");
                        out.ret["a"] = json!(kh);
                        return out;
                    },
                    "drop" => {
                        if let Some(cache) = caches.remove(&c) {
                            drop(cache);
                        }
                        return out;
                    },
                    _ => { }
                }

                if IterKinds::owning(&name) {
                    let cache = match caches.remove(&c) {
                        Some(cache) => cache,
                        None => { out.ret = ret_json("nocache"); return out; }
                    };
                    let mut seq: Vec<(u64, u64)> = Vec::new();

                    macro_rules! run_owning {
                        ($it:expr, $conv:expr) => {{
                            let mut it = $it;
                            for letter in word.iter() {
                                let item = letter.step(&mut it);
                                match item {
                                    Some(x) => {
                                        let (kt, vt): (u64, u64) = $conv(&x);
                                        seq.push((kt, vt));
                                        out._keep.push(Box::new(x));
                                    },
                                    None => seq.push((0, 0))
                                }
                            }
                            if fl { std::mem::forget(it); } else { drop(it); }
                        }};
                    }

                    match name.as_str() {
                        "into_iter" => run_owning!(cache.into_iter(),
                            |x: &(TKey, TVal)| (x.0.tok, x.1.tok)),
                        "into_keys" => run_owning!(cache.into_keys(), |x: &TKey| (x.tok, 0)),
                        _ => run_owning!(cache.into_values(), |x: &TVal| (0, x.tok))
                    }

                    out.ret = ret_json(if fl { "forgot" } else { "dropped" });
                    out.ret["seq"] = json!(seq.iter().map(|(a, b)| json!([a, b])).collect::<Vec<_>>());
                    for (a, b) in seq {
                        if a != 0 { out.handed.push(a); }
                        if b != 0 { out.handed.push(b); }
                    }
                    return out;
                }

                if name == "clone_from" {
                    // d.clone_from(&c): take d out of the map for the duration of the call
                    let mut target = match caches.remove(&d) {
                        Some(cache) => cache,
                        None => { out.ret = ret_json("nocache"); return out; }
                    };
                    match caches.get(&c) {
                        Some(source) => target.clone_from(source),
                        None => out.ret = ret_json("nocache")
                    }
                    *created = Some((d, target));
                    return out;
                }

                if name == "clone" {
                    let cloned = match caches.get(&c) {
                        Some(cache) => cache.clone(),
                        None => { out.ret = ret_json("nocache"); return out; }
                    };
                    *created = Some((d, cloned));
                    return out;
                }

                let cache = match caches.get_mut(&c) {
                    Some(cache) => cache,
                    None => { out.ret = ret_json("nocache"); return out; }
                };

                match name.as_str() {
                    "insert" => {
                        let key = TKey::new(k, kh);
                        let value = TVal::with_clone_delta(vs, cd);
                        *argk = key.tok;
                        *argv = value.tok;

                        match cache.insert(key, value) {
                            Ok(None) => out.ret = ret_json("OkNone"),
                            Ok(Some(v)) => {
                                out.ret = ret_json("OkSome");
                                out.ret["val"] = json!(v.tok);
                                out.ret["d"] = json!(v.heap);
                                out.handed.push(v.tok);
                                out._keep.push(Box::new(v));
                            },
                            Err(InsertError::EntryTooLarge { key, value, entry_size, max_size }) => {
                                out.ret = ret_json("EntryTooLarge");
                                out.ret["a"] = json!(enc(entry_size));
                                out.ret["b"] = json!(enc(max_size));
                                out.ret["key"] = json!(0 + key.tok);
                                out.ret["val"] = json!(value.tok);
                                out.ret["d"] = json!(value.heap);
                                out.handed.push(key.tok);
                                out.handed.push(value.tok);
                                out._keep.push(Box::new((key, value)));
                            }
                        }
                    },
                    "try_insert" => {
                        let key = TKey::new(k, kh);
                        let value = TVal::with_clone_delta(vs, cd);
                        *argk = key.tok;
                        *argv = value.tok;

                        match cache.try_insert(key, value) {
                            Ok(()) => out.ret = ret_json("Ok"),
                            Err(e) => {
                                let (tag, a, b) = match &e {
                                    TryInsertError::OccupiedEntry { .. } => ("OccupiedEntry", 0, 0),
                                    TryInsertError::WouldEjectLru { entry_size, free_memory, .. } =>
                                        ("WouldEjectLru", enc(*entry_size), enc(*free_memory)),
                                    TryInsertError::EntryTooLarge { entry_size, max_size, .. } =>
                                        ("EntryTooLarge", enc(*entry_size), enc(*max_size))
                                };
                                out.ret = ret_json(tag);
                                out.ret["a"] = json!(a);
                                out.ret["b"] = json!(b);
                                // through the accessors
                                let (kt, vt) = (e.key().tok, e.value().tok);
                                let (ek, ev) = e.entry();
                                let same = ek.tok == kt && ev.tok == vt;
                                let (key, value) = e.into_entry();
                                out.ret["key"] = json!(if same { key.tok } else { 0 });
                                out.ret["val"] = json!(if kt == key.tok && vt == value.tok { value.tok } else { 0 });
                                out.ret["d"] = json!(value.heap);
                                out.handed.push(key.tok);
                                out.handed.push(value.tok);
                                out._keep.push(Box::new((key, value)));
                            }
                        }
                    },
                    "get" => {
                        let r = if borrowed { cache.get(&KeyId(k)) } else { cache.get(&TKey::probe(k)) };
                        if let Some(v) = r {
                            out.ret = ret_json("Some");
                            out.ret["val"] = json!(v.tok);
                            out.ret["d"] = json!(v.heap);
                        }
                        else {
                            out.ret = ret_json("None");
                        }
                    },
                    "peek" => {
                        let r = if borrowed { cache.peek(&KeyId(k)) } else { cache.peek(&TKey::probe(k)) };
                        if let Some(v) = r {
                            out.ret = ret_json("Some");
                            out.ret["val"] = json!(v.tok);
                            out.ret["d"] = json!(v.heap);
                        }
                        else {
                            out.ret = ret_json("None");
                        }
                    },
                    "get_entry" | "peek_entry" | "get_lru" | "peek_lru" | "peek_mru" => {
                        let r = match name.as_str() {
                            "get_entry" => if borrowed { cache.get_entry(&KeyId(k)) }
                                           else { cache.get_entry(&TKey::probe(k)) },
                            "peek_entry" => if borrowed { cache.peek_entry(&KeyId(k)) }
                                            else { cache.peek_entry(&TKey::probe(k)) },
                            "get_lru" => cache.get_lru(),
                            "peek_lru" => cache.peek_lru(),
                            _ => cache.peek_mru()
                        };
                        if let Some((kk, v)) = r {
                            out.ret = ret_json("Some");
                            out.ret["key"] = json!(0 + kk.tok);
                            out.ret["val"] = json!(v.tok);
                            out.ret["d"] = json!(v.heap);
                        }
                        else {
                            out.ret = ret_json("None");
                        }
                    },
                    "touch" => {
                        if borrowed { cache.touch(&KeyId(k)) } else { cache.touch(&TKey::probe(k)) }
                    },
                    "contains" => {
                        let r = if borrowed { cache.contains(&KeyId(k)) }
                                else { cache.contains(&TKey::probe(k)) };
                        out.ret = ret_json(if r { "true" } else { "false" });
                    },
                    "remove" => {
                        let r = if borrowed { cache.remove(&KeyId(k)) }
                                else { cache.remove(&TKey::probe(k)) };
                        if let Some(v) = r {
                            out.ret = ret_json("Some");
                            out.ret["val"] = json!(v.tok);
                            out.ret["d"] = json!(v.heap);
                            out.handed.push(v.tok);
                            out._keep.push(Box::new(v));
                        }
                        else {
                            out.ret = ret_json("None");
                        }
                    },
                    "remove_entry" | "remove_lru" | "remove_mru" => {
                        let r = match name.as_str() {
                            "remove_entry" => if borrowed { cache.remove_entry(&KeyId(k)) }
                                              else { cache.remove_entry(&TKey::probe(k)) },
                            "remove_lru" => cache.remove_lru(),
                            _ => cache.remove_mru()
                        };
                        if let Some((kk, v)) = r {
                            out.ret = ret_json("Some");
                            out.ret["key"] = json!(0 + kk.tok);
                            out.ret["val"] = json!(v.tok);
                            out.ret["d"] = json!(v.heap);
                            out.handed.push(kk.tok);
                            out.handed.push(v.tok);
                            out._keep.push(Box::new((kk, v)));
                        }
                        else {
                            out.ret = ret_json("None");
                        }
                    },
                    "mutate" => {
                        let mut called: Vec<u32> = Vec::new();
                        let token: u64 = 0x5EED_0000 + k as u64;
                        let f = |v: &mut TVal| -> u64 {
                            called.push(k);
                            if crash_after {
                                v.heap = vs;
                            }
                            tick(Kind::Closure);
                            v.heap = vs;
                            token
                        };
                        let r = if borrowed { cache.mutate(&KeyId(k), f) }
                                else { cache.mutate(&TKey::probe(k), f) };
                        match r {
                            Ok(None) => out.ret = ret_json("OkNone"),
                            Ok(Some(t)) => {
                                out.ret = ret_json("OkSome");
                                out.ret["val"] = if t == token { marker("R", 0) } else { marker("?", 0) };
                            },
                            Err(MutateError::EntryTooLarge { key, value, old_entry_size,
                                    new_entry_size, max_size }) => {
                                out.ret = ret_json("EntryTooLarge");
                                out.ret["a"] = json!(enc(old_entry_size));
                                out.ret["b"] = json!(enc(new_entry_size));
                                out.ret["c"] = json!(enc(max_size));
                                out.ret["key"] = json!(0 + key.tok);
                                out.ret["val"] = json!(value.tok);
                                out.ret["d"] = json!(value.heap);
                                out.handed.push(key.tok);
                                out.handed.push(value.tok);
                                out._keep.push(Box::new((key, value)));
                            }
                        }
                        out.ret["seq"] = json!(called);
                    },
                    "set_max_size" => cache.set_max_size(n),
                    "retain" => {
                        cache.retain(|kk, v| {
                            closure_calls.push((kk.id.0, kk.tok, v.tok));
                            tick(Kind::Closure);
                            keep.contains(&kk.id.0)
                        });
                    },
                    "clear" => cache.clear(),
                    "reserve" => cache.reserve(n),
                    "try_reserve" => {
                        if alloc_nth > 0 {
                            alloc::refuse_nth(alloc_nth as usize);
                        }
                        else if fl {
                            alloc::refuse_from(1);
                        }
                        let r = cache.try_reserve(n);
                        let refused = alloc::allow_all();
                        *refusals = refused;
                        out.ret = match r {
                            Ok(()) => ret_json("Ok"),
                            Err(hashbrown::TryReserveError::CapacityOverflow) =>
                                ret_json("CapacityOverflow"),
                            Err(hashbrown::TryReserveError::AllocError { .. }) =>
                                ret_json("AllocError")
                        };
                        let _ = refused;
                    },
                    "shrink_to" => cache.shrink_to(n),
                    "shrink_to_fit" => cache.shrink_to_fit(),
                    "len" => { out.ret = ret_json("int"); out.ret["a"] = json!(enc(cache.len())); },
                    "is_empty" => out.ret = ret_json(if cache.is_empty() { "true" } else { "false" }),
                    "current_size" => { out.ret = ret_json("int"); out.ret["a"] = json!(enc(cache.current_size())); },
                    "max_size" => { out.ret = ret_json("int"); out.ret["a"] = json!(enc(cache.max_size())); },
                    "capacity" => { out.ret = ret_json("int"); out.ret["a"] = json!(enc(cache.capacity())); },
                    "hasher" => {
                        // the builder the cache reports must hash like the one it was given
                        // (every cache of a session is created with a clone of self.hb)
                        use std::hash::BuildHasher;
                        let probe = 0x5eed_u32;
                        // (a reseeding builder hashes differently after every clone by design)
                        let same = (cache.hasher().hash_one(probe) == hb.hash_one(probe)
                                || matches!(hb, HB::Reseed(_)))
                            && std::mem::discriminant(cache.hasher()) == std::mem::discriminant(&hb);
                        out.ret = ret_json(if same { "own" } else { "other" });
                    },
                    "debug" => {
                        let s = format!("{:?}", cache);
                        let body = s.trim_start_matches('{').trim_end_matches('}');
                        let seq: Vec<i64> = body.split(',')
                            .filter(|p| !p.trim().is_empty())
                            .map(|p| p.split(':').next().unwrap_or("").trim().parse::<i64>().unwrap_or(-1))
                            .collect();
                        out.ret["seq"] = json!(seq);
                    },
                    "iter" | "keys" | "values" | "drain" => {
                        let mut seq: Vec<(u64, u64)> = Vec::new();

                        macro_rules! run_iter {
                            ($it:expr, $conv:expr, $own:expr) => {{
                                let mut it = $it;
                                for letter in word.iter() {
                                    let item = letter.step(&mut it);
                                    match item {
                                        Some(x) => {
                                            let (kt, vt): (u64, u64) = $conv(&x);
                                            seq.push((kt, vt));
                                            if $own { out._keep.push(Box::new(x)); }
                                        },
                                        None => seq.push((0, 0))
                                    }
                                }
                                if fl { std::mem::forget(it); } else { drop(it); }
                            }};
                        }

                        match name.as_str() {
                            "iter" => {
                                let mut it = cache.iter();
                                for letter in word.iter() {
                                    let item = letter.step(&mut it);
                                    match item {
                                        Some((kk, v)) => seq.push((kk.tok, v.tok)),
                                        None => seq.push((0, 0))
                                    }
                                }
                                if fl { std::mem::forget(it); }
                            },
                            "keys" => {
                                let mut it = cache.keys();
                                for letter in word.iter() {
                                    let item = letter.step(&mut it);
                                    match item {
                                        Some(kk) => seq.push((kk.tok, 0)),
                                        None => seq.push((0, 0))
                                    }
                                }
                                if fl { std::mem::forget(it); }
                            },
                            "values" => {
                                let mut it = cache.values();
                                for letter in word.iter() {
                                    let item = letter.step(&mut it);
                                    match item {
                                        Some(v) => seq.push((0, v.tok)),
                                        None => seq.push((0, 0))
                                    }
                                }
                                if fl { std::mem::forget(it); }
                            },
                            _ => {
                                run_iter!(cache.drain(), |x: &(TKey, TVal)| (x.0.tok, x.1.tok), true);
                                for (a, b) in seq.iter() {
                                    if *a != 0 { out.handed.push(*a); }
                                    if *b != 0 { out.handed.push(*b); }
                                }
                            }
                        }

                        out.ret = ret_json(if fl { "forgot" } else { "dropped" });
                        out.ret["seq"] = json!(seq.iter().map(|(a, b)| json!([a, b])).collect::<Vec<_>>());
                    },
                    other => {
                        out.ret = ret_json("unknown_op");
                        out.ret["seq"] = json!([other]);
                    }
                }

                out
            }))
        };

        // ---- read-only re-execution of shared-reference operations (C19)
        if self.roguard.is_some() && crash_kind.is_empty() {
            let opname = a["op"].as_str().unwrap_or("");
            let step = self.step;
            if let (Some(cache), Some(g)) = (self.caches.get(&c), self.roguard.as_mut()) {
                let bb = std::hint::black_box::<u64>;
                match opname {
                    "peek" => g.with_protected(cache, step, || {
                        bb(cache.peek(&KeyId(k)).map(|v| v.tok).unwrap_or(0));
                        bb(cache.peek(&TKey::probe(k)).map(|v| v.tok).unwrap_or(0));
                    }),
                    "peek_entry" => g.with_protected(cache, step, || {
                        bb(cache.peek_entry(&KeyId(k)).map(|(kk, _)| kk.tok).unwrap_or(0));
                        bb(cache.peek_entry(&TKey::probe(k)).map(|(kk, _)| kk.tok).unwrap_or(0));
                    }),
                    "contains" => g.with_protected(cache, step, || {
                        bb(cache.contains(&KeyId(k)) as u64);
                        bb(cache.contains(&TKey::probe(k)) as u64);
                    }),
                    "peek_lru" => g.with_protected(cache, step, || {
                        bb(cache.peek_lru().map(|(kk, _)| kk.tok).unwrap_or(0));
                    }),
                    "peek_mru" => g.with_protected(cache, step, || {
                        bb(cache.peek_mru().map(|(kk, _)| kk.tok).unwrap_or(0));
                    }),
                    "len" | "is_empty" | "current_size" | "max_size" | "capacity" | "hasher" =>
                        g.with_protected(cache, step, || {
                            use std::hash::BuildHasher;
                            bb(cache.len() as u64 + cache.is_empty() as u64 + cache.current_size() as u64
                                + cache.max_size() as u64 + cache.capacity() as u64
                                + cache.hasher().hash_one(7u32));
                        }),
                    "iter" | "keys" | "values" | "debug" => g.with_protected(cache, step, || {
                        let mut s = 0u64;
                        for (kk, v) in cache.iter() { s = s.wrapping_add(kk.tok ^ v.tok); }
                        for (kk, v) in cache.iter().rev() { s = s.wrapping_add(kk.tok ^ v.tok); }
                        for kk in cache.keys() { s = s.wrapping_add(kk.tok); }
                        for v in cache.values().rev() { s = s.wrapping_add(v.tok); }
                        let mut it = cache.iter();
                        while let (Some(x), Some(y)) = (it.next(), it.next_back()) { s ^= x.0.tok ^ y.1.tok; }
                        bb(s);
                    }),
                    // clone allocates: its allocations are served from a private arena so that
                    // neither they nor allocator metadata touch the protected pages; the
                    // throw-away clones are untracked. Second clone: a key type whose Clone
                    // does not preserve equality (distinct source keys collide in the clone) -
                    // whatever the clone makes of that, the SOURCE must not be written to.
                    "clone" | "clone_from" => {
                        let need = 4096 + 64 * (cache.capacity() + cache.len() + 8) * 4;
                        if alloc::arena_on(need) {
                            alloc::arena_off();
                            g.with_protected(cache, step, || {
                                set_quiet(true);
                                alloc::arena_on(need);
                                let faithful = cache.clone();
                                set_collapse(1);
                                let collapsed = cache.clone();
                                set_collapse(0);
                                bb((faithful.len() + collapsed.len()) as u64);
                                alloc::arena_off();
                                // leaked on purpose: their destructors would run user code and
                                // (for the collapsed one) walk a table the crate never meant to have
                                std::mem::forget(faithful);
                                std::mem::forget(collapsed);
                                set_quiet(false);
                            });
                        }
                    },
                    _ => { }
                }
            }
        }

        let fired = disarm();
        let refused_left = alloc::allow_all();
        let _ = refused_left;
        let cnt = counts();
        let window = reg_window_take();

        let name = a["op"].as_str().unwrap_or("").to_string();
        let mut panic_json = json!({"kind": "none", "n": 0, "msg": "", "armed": ""});
        let (mut ret, handed_toks) = match result {
            Ok(out) => {
                let CallOut { ret, handed, _keep } = out;
                // returned objects are dropped here, outside the window
                drop(_keep);
                let _ = reg_window_take();
                (ret, handed)
            },
            Err(payload) => {
                let (kind, msg) = if let Some(vp) = payload.downcast_ref::<VerifPanic>() {
                    (KIND_NAMES[vp.0 as usize].to_string(), String::new())
                }
                else if let Some(s) = payload.downcast_ref::<&str>() {
                    ("unexpected".to_string(), s.to_string())
                }
                else if let Some(s) = payload.downcast_ref::<String>() {
                    ("unexpected".to_string(), s.clone())
                }
                else {
                    ("unexpected".to_string(), "?".to_string())
                };
                panic_json = json!({"kind": kind, "n": crash_n, "msg": msg, "armed": crash_kind});
                drop(payload);
                let _ = reg_window_take();
                (ret_json("panic"), Vec::new())
            }
        };

        if let Some((id, cache)) = created.take() {
            if let Some(old) = self.caches.insert(id, cache) {
                // never happens in well-formed scripts; keep accounting sane
                std::mem::forget(old);
                reg_note(format!("cache_overwritten:{}", id));
            }
        }

        if self.cfg.project_every > 1 && self.step % self.cfg.project_every != 0 {
            // light step: no projection, identities not tracked
            if let Some((id, cache)) = created.take() {
                if let Some(old) = self.caches.insert(id, cache) {
                    std::mem::forget(old);
                }
            }
            let _ = reg_anomalies_take();
            return json!({"i": self.step, "c": c, "a": a.clone(), "light": true,
                          "tag": ret["tag"], "panic": panic_json, "fired": fired});
        }

        // ---- resolve identities relative to the previous state of cache c
        for f in ["key", "val"] {
            if let Some(t) = ret[f].as_u64() {
                ret[f] = if t == 0 { marker("?", 0) } else { self.resolve(c, t, argk, argv) };
            }
        }

        // sequences of yielded / visited objects become key ids
        if name == "retain" {
            let seq: Vec<Value> = closure_calls.iter().map(|(kid, kt, vt)| {
                let mk = self.resolve(c, *kt, 0, 0);
                let mv = self.resolve(c, *vt, 0, 0);
                if mk == marker("K", *kid as i64) && mv == marker("V", *kid as i64) {
                    json!(kid)
                }
                else {
                    json!(-(*kid as i64))
                }
            }).collect();
            ret["seq"] = json!(seq);
        }
        else if IterKinds::any(&name) {
            let pairs: Vec<(u64, u64)> = ret["seq"].as_array().map(|v| v.iter().map(|p|
                (p[0].as_u64().unwrap_or(0), p[1].as_u64().unwrap_or(0))).collect())
                .unwrap_or_default();
            let seq: Vec<Value> = pairs.iter().map(|(kt, vt)| {
                if *kt == 0 && *vt == 0 {
                    return json!(0);
                }
                let mk = if *kt != 0 { self.resolve(c, *kt, 0, 0) } else { Value::Null };
                let mv = if *vt != 0 { self.resolve(c, *vt, 0, 0) } else { Value::Null };
                let kk = if mk.is_null() { None } else if mk[0] == "K" { mk[1].as_i64() } else { Some(-1) };
                let kv = if mv.is_null() { None } else if mv[0] == "V" { mv[1].as_i64() } else { Some(-1) };
                match (kk, kv) {
                    (Some(x), Some(y)) => if x == y { json!(x) } else { json!(-1) },
                    (Some(x), None) => json!(x),
                    (None, Some(y)) => json!(y),
                    (None, None) => json!(-1)
                }
            }).collect();
            ret["seq"] = json!(seq);
        }

        let mut dropped: Vec<Value> = window.iter().map(|t| self.resolve(c, *t, argk, argv)).collect();
        dropped.sort_by_key(|v| v.to_string());
        let mut handed: Vec<Value> = handed_toks.iter().map(|t| self.resolve(c, *t, argk, argv)).collect();
        handed.sort_by_key(|v| v.to_string());

        // ---- where did every object of cache c (and the arguments) end up?
        let mut before: Vec<u64> = self.prev.get(&c).map(|m| m.keys().cloned().collect()).unwrap_or_default();
        for t in [argk, argv] {
            if t != 0 { before.push(t); }
        }
        let window_set: HashSet<u64> = window.iter().cloned().collect();
        let handed_set: HashSet<u64> = handed_toks.iter().cloned().collect();

        // ---- project
        let mut ev = json!({
            "i": self.step,
            "c": c,
            "d": d,
            "a": if alloc_nth > 0 {
                // the model's `fl` = the allocator refused something during this call
                let mut a2 = a.clone();
                a2["fl"] = json!(refusals > 0);
                a2
            } else { a.clone() },
            "ret": ret,
            "dropped": dropped,
            "alloc_nth": alloc_nth,
            "handed": handed,
            "counts": {"hash": cnt[0], "eq": cnt[1], "clone": cnt[2], "size": cnt[3], "closure": cnt[4]},
            "panic": panic_json,
            "fired": fired
        });

        let pre_fp = self.prev_fp.get(&c).cloned().unwrap_or_default();
        ev["pre_fp"] = json!(pre_fp);

        let mut new_prev: BTreeMap<u32, TokMap> = BTreeMap::new();
        let mut others: Vec<Value> = Vec::new();
        let ids: Vec<u32> = self.caches.keys().cloned().collect();
        let mut subject_seen = false;

        for id in ids {
            let cache = self.caches.get(&id).unwrap();

            if id == c || (id == d && d != 0) {
                let p = project(cache);
                let pj = self.proj_json(c, &p, argk, argv);
                let fp = p.hook.as_ref().map(hook_fingerprint).unwrap_or_default();
                let mut tm = TokMap::new();

                for r in p.rows.iter() {
                    tm.insert(r.4, ('K', r.0));
                    tm.insert(r.5, ('V', r.0));
                }

                new_prev.insert(id, tm);

                if id == c {
                    subject_seen = true;
                    ev["st"] = pj;
                    ev["fp"] = json!(fp.clone());
                    let probe = self.probe(cache, &p);
                    ev["probe"] = probe;
                    let fp2 = hook_fingerprint(&cache.verif_snapshot());
                    ev["fp2"] = json!(fp2);
                }
                else {
                    ev["dst"] = pj;
                    ev["dfp"] = json!(fp.clone());
                    // the new cache must find every entry it lists (C14: "the same entries")
                    ev["dprobe"] = self.probe(cache, &p);
                }

                self.prev_fp.insert(id, fp);
            }
            else {
                let fp = hook_fingerprint(&cache.verif_snapshot());
                let before = self.prev_fp.get(&id).cloned().unwrap_or_default();
                others.push(json!([id, before == fp]));
                self.prev_fp.insert(id, fp);

                if let Some(tm) = self.prev.remove(&id) {
                    new_prev.insert(id, tm);
                }
            }
        }

        if !subject_seen {
            let p = dead_proj();
            ev["st"] = self.proj_json(c, &p, argk, argv);
            ev["fp"] = json!("");
            ev["fp2"] = json!("");
            ev["probe"] = json!([]);
            self.prev_fp.remove(&c);
        }

        // objects stored now in c (or in the clone target d)
        let mut stored: HashSet<u64> = HashSet::new();
        for id in [c, d] {
            if let Some(m) = new_prev.get(&id) {
                for t in m.keys() { stored.insert(*t); }
            }
        }
        // objects of a type without a destructor (type shapes plainkey / plainval): nobody
        // reports their end, so what is neither stored nor handed out afterwards counts as
        // dropped (a leak or a double drop of plain data is not observable - and harmless)
        let mut window_set = window_set;
        if !(TRACK_K && TRACK_V) {
            let mut extra: Vec<Value> = Vec::new();
            for t in before.iter() {
                if reg_state(*t) == Some(TokState::Untracked) && !stored.contains(t)
                        && !handed_set.contains(t) && window_set.insert(*t) {
                    extra.push(self.resolve(c, *t, argk, argv));
                }
            }
            if !extra.is_empty() {
                let mut all: Vec<Value> = ev["dropped"].as_array().cloned().unwrap_or_default();
                all.extend(extra);
                all.sort_by_key(|v| v.to_string());
                ev["dropped"] = json!(all);
            }
        }
        let mut dup = 0;
        let mut missing = 0;
        for t in before.iter() {
            let places = stored.contains(t) as u32 + window_set.contains(t) as u32
                + handed_set.contains(t) as u32;
            if places == 0 { missing += 1; }
            if places > 1 { dup += 1; }
        }
        ev["cons"] = json!({"dup": dup, "missing": missing});
        ev["others"] = json!(others);
        let mut anomalies = reg_anomalies_take();
        anomalies.sort();
        ev["anom"] = json!(anomalies);
        self.prev = new_prev;
        ev
    }

    fn proj_json(&self, c: u32, p: &Proj, argk: u64, argv: u64) -> Value {
        let rows: Vec<Value> = p.rows.iter().map(|r| {
            json!([r.0, r.1, r.2, enc(r.3)])
        }).collect();
        let marks: Vec<Value> = p.rows.iter().map(|r| {
            json!([self.resolve(c, r.4, argk, argv), self.resolve(c, r.5, argk, argv)])
        }).collect();
        let nb: Vec<i64> = p.rows.iter().map(|r| r.6).collect();
        let pb: Vec<i64> = p.rows.iter().map(|r| r.7).collect();
        let vals_ok = p.vals_fwd.len() == p.rows.len()
            && p.vals_fwd.iter().zip(p.rows.iter()).all(|(t, r)| *t == r.5);
        let mut j = json!({
            "alive": p.alive,
            "trav": p.traversable,
            "ord": rows,
            "marks": marks,
            "nb": nb,
            "pb": pb,
            "rev": p.rev,
            "keys": p.keys_fwd,
            "vals_ok": vals_ok,
            "len": enc(p.len),
            "is_empty": p.is_empty,
            "cur": enc(p.cur),
            "max": enc(p.max),
            "cap": enc(p.cap),
            "lru": p.lru,
            "mru": p.mru,
            "dead": p.dead_refs.len()
        });

        if let Some(h) = p.hook.as_ref() {
            let node = |n: &lru_mem::VerifNode| json!([n.bucket, enc(n.size),
                link_bucket(h, n.prev), link_bucket(h, n.next)]);
            let index_of = |addr: usize| -> i64 {
                h.full.iter().position(|a| *a == addr).map(|_| {
                    // bucket index of that address
                    (h.table.wrapping_sub(addr) / h.stride.max(1)) as i64 - 1
                }).unwrap_or(-2)
            };
            let mut full: Vec<i64> = h.full.iter().map(|a| index_of(*a)).collect();
            full.sort();
            j["hook"] = json!({
                "tbl": format!("{:x}", h.table),
                "b": if h.capacity == 0 && h.items == 0 && h.buckets == 1 { 0 } else { h.buckets },
                "items": h.items,
                "cap": enc(h.capacity),
                "cur": enc(h.current_size),
                "max": enc(h.max_size),
                "fwd": h.lru_to_mru.iter().map(node).collect::<Vec<_>>(),
                "fc": h.lru_to_mru_closed,
                "bwd": h.mru_to_lru.iter().map(|n| n.bucket).collect::<Vec<_>>(),
                "bc": h.mru_to_lru_closed,
                "full": full,
                "sp": link_bucket(h, h.seal_prev),
                "sn": link_bucket(h, h.seal_next)
            });
        }
        else {
            j["hook"] = json!({"tbl": "", "b": 0, "items": 0, "cap": 0, "cur": 0, "max": 0,
                "fwd": [], "fc": true, "bwd": [], "bc": true, "full": [], "sp": -1, "sn": -1});
        }

        j
    }

    /// Looks every key of the universe up through the owned and the borrowed
    /// form (shared-reference operations only).
    fn probe(&self, cache: &Cache, p: &Proj) -> Value {
        if !p.traversable {
            return json!([]);
        }

        let mut out = Vec::new();

        for k in 1..=self.cfg.universe {
            let o = cache.peek(&TKey::probe(k)).map(|v| v.tok);
            let b = cache.peek(&KeyId(k)).map(|v| v.tok);
            let co = cache.contains(&TKey::probe(k));
            let cb = cache.contains(&KeyId(k));
            let stored = p.rows.iter().find(|r| r.0 == k).map(|r| r.5);
            // 1: found and it is the traversed value object, 0: not found,
            // -1: found something else
            let code = |x: Option<u64>| -> i64 {
                match (x, stored) {
                    (None, _) => 0,
                    (Some(t), Some(s)) if t == s => 1,
                    _ => -1
                }
            };
            out.push(json!([k, code(o), code(b), co as i64, cb as i64]));
        }

        json!(out)
    }

    /// Gives up on all caches without running their destructors (their
    /// structure is corrupt) and reports what the registry recorded so far.
    pub fn abandon(&mut self) -> Value {
        let ids: Vec<u32> = self.caches.keys().cloned().collect();

        for id in ids {
            if let Some(cache) = self.caches.remove(&id) {
                std::mem::forget(cache);
            }
        }

        let anomalies = reg_anomalies_take();
        json!({"live": 0, "anom": anomalies, "minted": reg_minted(), "abandoned": true})
    }

    /// Drops all caches (end of a run) and reports what is left alive.
    pub fn finish(&mut self) -> Value {
        reg_window_start();
        let ids: Vec<u32> = self.caches.keys().cloned().collect();

        for id in ids {
            if let Some(cache) = self.caches.remove(&id) {
                drop(cache);
            }
        }

        let live = reg_live();
        let anomalies = reg_anomalies_take();
        json!({"live": live.len(), "anom": anomalies, "minted": reg_minted()})
    }

}

pub struct IterKinds;

impl IterKinds {
    pub fn owning(name: &str) -> bool {
        matches!(name, "into_iter" | "into_keys" | "into_values")
    }

    pub fn any(name: &str) -> bool {
        matches!(name, "iter" | "keys" | "values" | "drain" | "into_iter" | "into_keys"
            | "into_values")
    }
}


/// Self-consistency of what the real cache reports about itself (no expected
/// values involved): (facet, what it should be, what it is). Used by the replay
/// comparison and by the large-scale runs.
pub fn self_facets(ev: &Value) -> Vec<(String, Value, Value)> {
    let mut out = Vec::new();
    let st = &ev["st"];

    if st["alive"] != true {
        return out;
    }

    let mut eq = |name: &str, e: Value, a: Value| out.push((name.to_string(), e, a));
    eq("trav", json!(true), st["trav"].clone());

    if st["trav"] != true {
        return out;
    }

    let hook = &st["hook"];
    let act_rows: Vec<Value> = st["ord"].as_array().cloned().unwrap_or_default();
    let act_keys: Vec<Value> = act_rows.iter().map(|r| r[0].clone()).collect();
    let recs: Vec<Value> = hook["fwd"].as_array()
        .map(|v| v.iter().map(|n| n[1].clone()).collect()).unwrap_or_default();
    let es: Vec<Value> = act_rows.iter().map(|r| r[3].clone()).collect();
    eq("bound", json!(true), json!(dec(&st["cur"]) <= dec(&st["max"])));
    let held: i64 = es.iter().map(|v| v.as_i64().unwrap_or(0)).sum();
    let max_raw = st["max"].as_i64().unwrap_or(0);
    eq("bound_held", json!(true), json!(max_raw < 0 || held <= max_raw));
    eq("es_eq_rec", json!(es), json!(recs));
    eq("sum_rec", st["cur"].clone(), json!(recs.iter().map(|v| v.as_i64().unwrap_or(0)).sum::<i64>()));
    eq("len", json!(act_rows.len()), st["len"].clone());
    eq("is_empty", json!(act_rows.is_empty()), st["is_empty"].clone());
    let mut rev = act_keys.clone();
    rev.reverse();
    eq("mirror", json!(rev), st["rev"].clone());
    eq("keysiter", json!(act_keys), st["keys"].clone());
    eq("vals_ok", json!(true), st["vals_ok"].clone());
    eq("lru", act_keys.first().cloned().unwrap_or(json!(0)), st["lru"].clone());
    eq("mru", act_keys.last().cloned().unwrap_or(json!(0)), st["mru"].clone());
    let fwd_buckets: Vec<Value> = hook["fwd"].as_array()
        .map(|v| v.iter().map(|n| n[0].clone()).collect()).unwrap_or_default();
    eq("ptr_iter", json!(fwd_buckets), st["nb"].clone());
    eq("ptr_peek", json!(fwd_buckets), st["pb"].clone());
    eq("dead", json!(0), st["dead"].clone());
    eq("hook_cur", st["cur"].clone(), hook["cur"].clone());
    let mut sorted_keys: Vec<i64> = act_keys.iter().map(|k| k.as_i64().unwrap_or(0)).collect();
    sorted_keys.sort();
    sorted_keys.dedup();
    eq("nodup", json!(act_keys.len()), json!(sorted_keys.len()));
    let probe: Vec<Value> = ev["probe"].as_array().cloned().unwrap_or_default();
    let present: HashSet<i64> = act_keys.iter().map(|k| k.as_i64().unwrap_or(0)).collect();
    let exp_probe: Vec<Value> = probe.iter().map(|p| {
        let f = present.contains(&p[0].as_i64().unwrap_or(-1)) as i64;
        json!([p[0], f, f, f, f])
    }).collect();
    eq("probe", json!(exp_probe), json!(probe));
    eq("probe_ro", ev["fp"].clone(), ev["fp2"].clone());
    out
}
