------------------------------- MODULE LruCore -------------------------------
(***************************************************************************)
(* Order-free core of the cache for an UNBOUNDED argument about C01 / C02: *)
(* which keys are present, the size recorded for each, the running total   *)
(* and the limit.  Eviction is abstracted to "remove any set of present    *)
(* keys until the new total fits" (LRU order is irrelevant for the bound   *)
(* and the sum).  IndInv is an inductive invariant: Apalache checks        *)
(*   Init => IndInv           (--length=0 --inv=IndInv)                    *)
(*   IndInv /\ Next => IndInv'  (--init=IndInit --length=1 --inv=IndInv)   *)
(* for arbitrary (symbolic) sizes and limits within 0..MaxInt and any      *)
(* subset of the key universe - no bound on the length of histories.       *)
(***************************************************************************)
EXTENDS Integers, FiniteSets, Apalache

CONSTANTS
    \* @type: Set(Int);
    Keys,
    \* @type: Int;
    MaxInt

VARIABLES
    \* @type: Set(Int);
    present,
    \* @type: Int -> Int;
    rec,
    \* @type: Int;
    cur,
    \* @type: Int;
    max

ConstInit == Keys = 1..4 /\ MaxInt = 1000

\* @type: (Set(Int), Int -> Int) => Int;
SumOf(S, f) == ApaFoldSet(LAMBDA acc, k: acc + f[k], 0, S)

TypeOK == /\ present \subseteq Keys
          /\ rec \in [Keys -> 0..MaxInt]
          /\ cur \in 0..(MaxInt * 4)
          /\ max \in 0..MaxInt

IndInv == /\ TypeOK
          /\ \A k \in Keys : (k \notin present) => rec[k] = 0
          /\ \A k \in present : rec[k] >= 1
          /\ cur = SumOf(present, rec)
          /\ cur <= max

Init == /\ present = {}
        /\ rec = [k \in Keys |-> 0]
        /\ cur = 0
        /\ max \in 0..MaxInt

IndInit == /\ present \in SUBSET Keys
           /\ rec \in [Keys -> 0..MaxInt]
           /\ cur \in 0..(MaxInt * 4)
           /\ max \in 0..MaxInt
           /\ IndInv

(* insert(k, size): reject if too large; otherwise drop the old entry of k, *)
(* evict a set E of other present keys that makes everything fit, link.    *)
Insert == \E k \in Keys, sz \in 1..MaxInt :
    IF sz > max
    THEN UNCHANGED <<present, rec, cur, max>>
    ELSE \E E \in SUBSET (present \ {k}) :
           LET rest  == (present \ {k}) \ E
               total == SumOf(rest, rec) + sz
           IN /\ total <= max
              /\ present' = rest \cup {k}
              /\ rec' = [x \in Keys |-> IF x = k THEN sz ELSE IF x \in rest THEN rec[x] ELSE 0]
              /\ cur' = total
              /\ max' = max

Remove == \E k \in present :
    /\ present' = present \ {k}
    /\ rec' = [rec EXCEPT ![k] = 0]
    /\ cur' = cur - rec[k]
    /\ max' = max

(* mutate(k) to a new size: overflow removes the entry; otherwise evict others until it fits *)
Mutate == \E k \in present, sz \in 1..MaxInt :
    IF sz > max
    THEN /\ present' = present \ {k}
         /\ rec' = [rec EXCEPT ![k] = 0]
         /\ cur' = cur - rec[k]
         /\ max' = max
    ELSE \E E \in SUBSET (present \ {k}) :
           LET rest  == (present \ {k}) \ E
               total == SumOf(rest, rec) + sz
           IN /\ total <= max
              /\ present' = rest \cup {k}
              /\ rec' = [x \in Keys |-> IF x = k THEN sz ELSE IF x \in rest THEN rec[x] ELSE 0]
              /\ cur' = total
              /\ max' = max

SetMax == \E m \in 0..MaxInt : \E E \in SUBSET present :
    LET rest == present \ E IN
    /\ SumOf(rest, rec) <= m
    /\ present' = rest
    /\ rec' = [x \in Keys |-> IF x \in rest THEN rec[x] ELSE 0]
    /\ cur' = SumOf(rest, rec)
    /\ max' = m

Next == Insert \/ Remove \/ Mutate \/ SetMax

=============================================================================
