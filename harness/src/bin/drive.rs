//! Seeded random / adversarial driver: generates long operation histories far
//! outside the bounded model, executes them on the real cache and logs one
//! event per call for TLC trace validation.
//!
//!   drive --seed S --steps N --profile P --hasher H --keyform F --events OUT
//!         [--crash-rate R] [--segment L]

use lru_mem_verif_harness::*;
use rand::rngs::StdRng;
use rand::{Rng, SeedableRng};
use serde_json::{json, Value};
use std::io::{BufWriter, Write};

#[global_allocator]
static A: alloc::CountingAlloc = alloc::CountingAlloc;

fn arg(args: &[String], name: &str) -> Option<String> {
    args.iter().position(|a| a == name).and_then(|i| args.get(i + 1).cloned())
}

struct Profile {
    universe: u32,
    kheaps: Vec<u32>,
    vmax: usize,
    /// typical number of entries the limit is sized for
    fit: usize,
    caps: Vec<u32>,
    /// probability with which a destructive operation (clear, drop, owning
    /// iterator, limit 0, reject-all retain) is replaced by a lookup
    calm: f64
}

fn profile(name: &str) -> Profile {
    match name {
        "small" => Profile { universe: 5, kheaps: vec![0, 2], vmax: 6, fit: 3, caps: vec![0, 1, 3, 7], calm: 0.0 },
        "wide" => Profile { universe: 48, kheaps: vec![0, 1, 3], vmax: 30, fit: 40, caps: vec![0, 3, 14, 64], calm: 0.93 },
        "churn" => Profile { universe: 64, kheaps: vec![0], vmax: 4, fit: 20, caps: vec![0, 7], calm: 0.97 },
        // constant-length first-in-first-out churn over ever new keys: with a
        // sequential (identity) or constant hasher the occupied slots form one
        // dense run that wanders through the table, so tombstones pile up
        "fifo" => Profile { universe: 24, kheaps: vec![0], vmax: 4, fit: 20, caps: vec![0, 3], calm: 1.0 },
        // thousands of entries; only run with --selfcheck (structural facets evaluated by the
        // harness on the real state, no TLC: the events would be megabytes each)
        "huge" => Profile { universe: 6000, kheaps: vec![0, 3], vmax: 40, fit: 4500, caps: vec![0, 64, 3000], calm: 0.999 },
        "large" => Profile { universe: 400, kheaps: vec![0, 4], vmax: 50, fit: 300, caps: vec![0, 64, 500], calm: 0.985 },
        _ => Profile { universe: 12, kheaps: vec![0, 2, 5], vmax: 16, fit: 8, caps: vec![0, 1, 3, 7, 14], calm: 0.3 }
    }
}

fn op(name: &str, c: u32) -> Value {
    json!({"c": c, "d": 0, "a": {"op": name, "k": 0, "kh": 0, "vs": 0, "n": 0, "keep": [],
           "w": [], "fl": false}})
}

fn main() {
    std::panic::set_hook(Box::new(|_| { }));
    let args: Vec<String> = std::env::args().collect();
    let seed: u64 = arg(&args, "--seed").and_then(|s| s.parse().ok()).unwrap_or(1);
    let steps: u64 = arg(&args, "--steps").and_then(|s| s.parse().ok()).unwrap_or(1000);
    let pname = arg(&args, "--profile").unwrap_or_else(|| "medium".into());
    let mut prof = profile(&pname);
    if pname == "fifo" {
        // 14, 28 are capacities of hashbrown tables (16 and 32 buckets), 20 is not
        prof.fit = [20, 14, 28][(arg(&args, "--seed").and_then(|s| s.parse::<u64>().ok()).unwrap_or(1) % 3) as usize];
    }
    if let Some(f) = arg(&args, "--fit").and_then(|s| s.parse::<usize>().ok()) {
        prof.fit = f;
    }
    // --cloneshift: values whose clones have a different heap size than the originals
    let cloneshift = args.iter().any(|a| a == "--cloneshift");
    if args.iter().any(|a| a == "--uniform") {
        // all entries the same size: the number of entries stays exactly at `fit`
        prof.vmax = 0;
        prof.kheaps = vec![0];
    }
    let crash_rate: f64 = arg(&args, "--crash-rate").and_then(|s| s.parse().ok()).unwrap_or(0.0);
    let forget_rate: f64 = arg(&args, "--forget-rate").and_then(|s| s.parse().ok()).unwrap_or(0.0);
    let segment: u64 = arg(&args, "--segment").and_then(|s| s.parse().ok()).unwrap_or(400);
    // --selfcheck N: project every N-th step only and evaluate the self-consistency facets
    // in place of logging events for TLC
    let selfcheck: u64 = arg(&args, "--selfcheck").and_then(|s| s.parse().ok()).unwrap_or(0);
    let mut self_failures: Vec<Value> = Vec::new();
    let mut self_checked = 0u64;
    let cfg = Config {
        hasher: arg(&args, "--hasher").unwrap_or_else(|| "default".into()),
        keyform: if arg(&args, "--keyform").as_deref() == Some("borrowed") { KeyForm::Borrowed }
                 else { KeyForm::Owned },
        universe: prof.universe,
        seed,
        full_hook: true,
        project_every: selfcheck.max(1)
    };
    let mut out = BufWriter::new(std::fs::File::create(arg(&args, "--events").expect("--events")).unwrap());
    let mut script = arg(&args, "--script-out").map(|p| BufWriter::new(std::fs::File::create(p).unwrap()));
    let mut rng = StdRng::seed_from_u64(seed);
    let overhead = lru_mem::entry_size(&TKey::probe(1), &TVal::raw(0, 0, 0));
    let mut session = Session::new(cfg.clone());
    let mut leaked = false;
    let mut in_segment = 0u64;
    let mut per_op: std::collections::BTreeMap<String, u64> = Default::default();
    let mut crashes = 0u64;
    let mut max_len = 0usize;
    let mut max_buckets = 0usize;
    let mut tomb_states = 0u64;
    let mut next_key: u32 = 0;
    // --cloneshift: a clone whose values differ in size from what was recorded for them is
    // outside what the properties assume for continued use (sizes change only inside mutate);
    // it is observed when it is made and dropped right afterwards
    let mut pending_drop: Option<u32> = None;

    for _ in 0..steps {
        // end of a segment: drop everything and check nothing is left alive
        if in_segment >= segment {
            let fin = session.finish();
            writeln!(out, "{}", json!({"reset": true, "fin": fin, "leak_ok": leaked})).unwrap();
            if let Some(w) = script.as_mut() { writeln!(w, "{}", json!({"reset": true, "leak_ok": leaked})).unwrap(); }
            reg_reset();
            session = Session::new(cfg.clone());
            leaked = false;
            in_segment = 0;
        }

        in_segment += 1;
        let alive: Vec<u32> = session.caches.keys().cloned().collect();

        let mut forced = false;
        let mut o = if let Some(dd) = pending_drop.take().filter(|dd| alive.contains(dd)) {
            forced = true;
            op("drop", dd)
        }
        else if pname == "fifo" && alive.contains(&1) {
            let cache = session.caches.get(&1).unwrap();
            let len = cache.len();
            let snap = cache.verif_snapshot();
            max_len = max_len.max(len);
            max_buckets = max_buckets.max(snap.buckets);
            let full_cap = if snap.buckets <= 8 { snap.buckets.saturating_sub(1) } else { snap.buckets / 8 * 7 };
            if cache.capacity() < full_cap && snap.buckets > 1 { tomb_states += 1; }
            let recent = |rng: &mut StdRng, next_key: u32| -> u32 {
                next_key.saturating_sub(rng.gen_range(0..(prof.fit as u32 + 3))).max(1)
            };
            let r = rng.gen_range(0..100);
            let mut o;
            if r < 80 {
                next_key += 1;
                o = op(if rng.gen_bool(0.9) { "insert" } else { "try_insert" }, 1);
                o["a"]["k"] = json!(next_key);
                o["a"]["vs"] = json!(rng.gen_range(0..=prof.vmax));
            }
            else if r < 88 {
                o = op(["get", "touch", "get_entry"][rng.gen_range(0..3)], 1);
                o["a"]["k"] = json!(recent(&mut rng, next_key));
            }
            else if r < 92 {
                o = op(["peek", "contains", "peek_lru", "capacity", "len"][rng.gen_range(0..5)], 1);
                if ["peek", "contains"].contains(&o["a"]["op"].as_str().unwrap()) {
                    o["a"]["k"] = json!(recent(&mut rng, next_key));
                }
            }
            else if r < 96 {
                o = op(["remove", "remove_lru", "remove_entry"][rng.gen_range(0..3)], 1);
                if o["a"]["op"] != "remove_lru" {
                    o["a"]["k"] = json!(recent(&mut rng, next_key));
                }
            }
            else if r < 98 {
                o = op("mutate", 1);
                o["a"]["k"] = json!(recent(&mut rng, next_key));
                o["a"]["vs"] = json!(rng.gen_range(0..=prof.vmax));
            }
            else {
                o = op(["reserve", "shrink_to_fit", "try_reserve"][rng.gen_range(0..3)], 1);
                if o["a"]["op"] != "shrink_to_fit" {
                    o["a"]["n"] = json!(rng.gen_range(0..4));
                }
            }
            o
        }
        else if !alive.contains(&1) {
            let mut o = op("new", 1);
            let choice = if prof.calm > 0.5 { rng.gen_range(1..10).max(2) } else { rng.gen_range(0..10) };
            let choice = if prof.calm > 0.5 && choice == 3 { 4 } else { choice };
            // constant-length churn needs a limit sized for `fit` entries
            let choice = if pname == "fifo" { 4 } else { choice };
            let max: i64 = match choice {
                0 => 0,
                1 => -1,
                2 => -(rng.gen_range(1..200) as i64),
                3 => overhead as i64,
                _ => ((overhead + prof.vmax / 2) * prof.fit) as i64 + rng.gen_range(0..overhead as i64)
            };
            o["a"]["n"] = json!(max);
            o["a"]["kh"] = json!(prof.caps[rng.gen_range(0..prof.caps.len())]);
            o
        }
        else {
            let c = alive[rng.gen_range(0..alive.len())];
            let cache = session.caches.get(&c).unwrap();
            let len = cache.len();
            let cur = cache.current_size();
            let cap = cache.capacity();
            let snap = cache.verif_snapshot();
            max_len = max_len.max(len);
            max_buckets = max_buckets.max(snap.buckets);
            let full_cap = if snap.buckets <= 8 { snap.buckets.saturating_sub(1) } else { snap.buckets / 8 * 7 };
            if cap < full_cap && snap.buckets > 1 { tomb_states += 1; }
            let present: Vec<u32> = cache.keys().map(|k| k.id.0).collect();
            let calm = prof.calm > 0.5;
            let k = if !present.is_empty() && rng.gen_bool(if calm { 0.35 } else { 0.6 }) {
                present[rng.gen_range(0..present.len())]
            } else {
                rng.gen_range(1..=prof.universe)
            };
            let mut r = rng.gen_range(0..1000);
            // the table is exactly full (no growth budget left): the moment at which capacity
            // and eviction logic interact - react to it half of the time with a limit change, a
            // growing mutate or a capacity operation instead of a random call
            let exactly_full = len >= 3 && len == cap;
            if exactly_full && rng.gen_bool(0.5) {
                r = [720, 350, 810, 830, 850, 870][rng.gen_range(0..6)];
            }
            if calm && (620..720).contains(&r) && rng.gen_bool(0.6) { r = rng.gen_range(0..300); }
            if calm && (400..620).contains(&r) && rng.gen_bool(0.4) { r = rng.gen_range(0..300); }
            let mut o;

            if r < 300 {
                o = op(if rng.gen_bool(0.75) { "insert" } else { "try_insert" }, c);
                o["a"]["k"] = json!(k);
                o["a"]["kh"] = json!(prof.kheaps[rng.gen_range(0..prof.kheaps.len())]);
                o["a"]["vs"] = json!(rng.gen_range(0..=prof.vmax));
                if rng.gen_bool(0.03) { o["a"]["vs"] = json!(prof.vmax * prof.fit * 3); }
                if cloneshift && rng.gen_bool(0.5) {
                    // a clone that is tighter, roomier, or too large for the whole cache
                    let deltas: [i64; 5] = [-3, -1, 2, 7, (prof.vmax * prof.fit * 40) as i64];
                    o["a"]["cd"] = json!(deltas[rng.gen_range(0..5)]);
                }
            }
            else if r < 400 {
                o = op("mutate", c);
                o["a"]["k"] = json!(k);
                o["a"]["vs"] = json!(if rng.gen_bool(0.1) { prof.vmax * prof.fit * 2 } else { rng.gen_range(0..=prof.vmax * 2) });
            }
            else if r < 520 {
                let names = ["get", "get_entry", "touch", "get_lru"];
                o = op(names[rng.gen_range(0..names.len())], c);
                o["a"]["k"] = json!(k);
            }
            else if r < 620 {
                let names = ["peek", "peek_entry", "contains", "peek_lru", "peek_mru", "len", "is_empty",
                             "current_size", "max_size", "capacity", "debug", "hasher"];
                o = op(names[rng.gen_range(0..names.len())], c);
                o["a"]["k"] = json!(k);
                if ["peek_lru", "peek_mru", "len", "is_empty", "current_size", "max_size", "capacity", "debug", "hasher"]
                        .contains(&o["a"]["op"].as_str().unwrap()) {
                    o["a"]["k"] = json!(0);
                }
            }
            else if r < 720 {
                let names = ["remove", "remove_entry", "remove_lru", "remove_mru"];
                o = op(names[rng.gen_range(0..names.len())], c);
                if rng.gen_bool(0.5) { o = op(names[rng.gen_range(0..2)], c); }
                if ["remove", "remove_entry"].contains(&o["a"]["op"].as_str().unwrap()) {
                    o["a"]["k"] = json!(k);
                }
            }
            else if r < 770 {
                o = op("set_max_size", c);
                let pick = if exactly_full && pname != "huge" { [3, 5, 5, 2][rng.gen_range(0..4)] }
                           else if pname == "huge" { if rng.gen_bool(0.3) { 1 } else { 7 } }
                           else if prof.calm > 0.5 && rng.gen_bool(0.7) { if rng.gen_bool(0.2) { 1 } else { 7 } }
                           else { rng.gen_range(0..8) };
                let m: i64 = match pick {
                    0 => 0,
                    1 => -1,
                    2 => cur as i64,
                    3 => (cur as i64 - 1).max(0),
                    4 => cur as i64 + 1,
                    5 => rng.gen_range(0..=(cur as i64 + 1)),
                    6 => -(rng.gen_range(1..300) as i64),
                    _ => cur as i64 + rng.gen_range(0..(overhead as i64 * (prof.fit as i64 + 1)))
                };
                o["a"]["n"] = json!(m);
            }
            else if r < 800 {
                o = op("retain", c);
                let p: f64 = if pname == "huge" { [0.98, 0.995, 1.0, 1.0][rng.gen_range(0..4)] }
                             else if calm { [0.7, 0.9, 0.95, 1.0][rng.gen_range(0..4)] }
                             else { [0.0, 0.2, 0.5, 0.8, 1.0][rng.gen_range(0..5)] };
                let keep: Vec<u32> = present.iter().cloned().filter(|_| rng.gen_bool(p)).collect();
                o["a"]["keep"] = json!(keep);
            }
            else if r < 808 {
                o = op("clear", c);
            }
            else if r < 880 {
                let names = ["reserve", "try_reserve", "shrink_to", "shrink_to_fit"];
                o = op(names[rng.gen_range(0..names.len())], c);
                let n: i64 = match rng.gen_range(0..9) {
                    0 => 0,
                    1 => -1,
                    2 => -(rng.gen_range(1..100) as i64),
                    // passes the overflow check of len + additional, fails inside the table
                    8 => -1_000_000,
                    3 => len as i64,
                    4 => cap as i64,
                    5 => cap as i64 + 1,
                    _ => rng.gen_range(0..(2 * cap as i64 + 8))
                };
                if o["a"]["op"] != "shrink_to_fit" {
                    o["a"]["n"] = json!(n);
                }
                if o["a"]["op"] == "reserve" && n < 0 && rng.gen_bool(0.7) {
                    o["a"]["n"] = json!(rng.gen_range(0..(cap as i64 + 8)));
                }
                if o["a"]["op"] == "try_reserve" {
                    o["a"]["fl"] = json!(rng.gen_bool(0.3));
                }
            }
            else if r < 940 {
                let names = ["iter", "keys", "values", "iter", "keys", "values", "drain",
                             "into_iter", "into_keys", "into_values"];
                let mut name = names[rng.gen_range(0..names.len())];
                if c != 1 && IterKinds::owning(name) && rng.gen_bool(0.5) { name = "iter"; }
                o = op(name, c);
                let wl = rng.gen_range(0..=(len.min(12) + 2));
                let pf: f64 = [0.0, 0.5, 1.0, 0.3][rng.gen_range(0..4)];
                // mostly next / next_back, now and then nth(J) / nth_back(J), J = 1, 2
                let w: Vec<&str> = (0..wl).map(|_| {
                    let front = rng.gen_bool(pf);
                    match (front, rng.gen_range(0..10)) {
                        (true, 0) => "s1", (true, 1) => "s2", (true, _) => "n",
                        (false, 0) => "r1", (false, 1) => "r2", (false, _) => "b"
                    }
                }).collect();
                o["a"]["w"] = json!(w);
                if forget_rate > 0.0 && rng.gen_bool(forget_rate) {
                    o["a"]["fl"] = json!(true);
                    leaked = true;
                }
            }
            else if r < 975 {
                // clone into a free id, or drop a clone
                let free: Vec<u32> = (2..=(if calm { 2 } else { 4 })).filter(|d| !alive.contains(d)).collect();
                let others: Vec<u32> = alive.iter().cloned().filter(|x| *x != c).collect();
                if !others.is_empty() && rng.gen_bool(0.3) {
                    o = op("clone_from", c);
                    o["d"] = json!(others[rng.gen_range(0..others.len())]);
                }
                else if !free.is_empty() && rng.gen_bool(0.7) {
                    o = op("clone", c);
                    o["d"] = json!(free[0]);
                }
                else if c != 1 {
                    o = op("drop", c);
                }
                else {
                    o = op("debug", c);
                }
            }
            else {
                o = op(if rng.gen_bool(0.5) { "drop" } else { "clear" }, c);
            }

            o
        };

        // calm profiles: most destructive operations become lookups, so that
        // the cache grows large and old
        {
            let nm = o["a"]["op"].as_str().unwrap().to_string();
            let destructive = matches!(nm.as_str(), "clear" | "drop" | "drain" | "into_iter"
                    | "into_keys" | "into_values")
                || (nm == "set_max_size" && o["a"]["n"].as_i64().unwrap_or(0) >= 0
                    && rng.gen_bool(0.7))
                || (nm == "retain" && rng.gen_bool(0.6));
            if destructive && !forced && prof.calm > 0.0 && rng.gen_bool(prof.calm) {
                let c = o["c"].as_u64().unwrap_or(1) as u32;
                o = op("get", c);
                o["a"]["k"] = json!(rng.gen_range(1..=prof.universe));
            }
        }

        let name = o["a"]["op"].as_str().unwrap().to_string();

        if crash_rate > 0.0 && !["new", "drop", "clone_from"].contains(&name.as_str()) && !IterKinds::any(&name)
                && rng.gen_bool(crash_rate) {
            let kinds = ["hash", "eq", "clone", "size", "closure", "closure_after"];
            let kind = match name.as_str() {
                "mutate" | "retain" if rng.gen_bool(0.5) => if rng.gen_bool(0.5) { "closure" } else { "closure_after" },
                "clone" => if rng.gen_bool(0.6) { "clone" } else { "hash" },
                _ => kinds[rng.gen_range(0..4)]
            };
            // half of the panics early in the call, half anywhere up to one callback per entry
            let biggest = session.caches.values().map(|c| c.len()).max().unwrap_or(0) as u32;
            let n = if rng.gen_bool(0.5) { rng.gen_range(1..6) } else { rng.gen_range(1..=(biggest + 4)) };
            o["crash"] = json!({"kind": kind, "n": n});
        }

        if cloneshift && (name == "clone" || name == "clone_from") {
            pending_drop = o["d"].as_u64().map(|x| x as u32);
        }

        let ev = session.exec(&o);

        if ev["fired"] == true {
            leaked = true;
            crashes += 1;
        }

        let corrupt = ev["st"]["alive"] == true && ev["st"]["trav"] == false;

        *per_op.entry(name).or_default() += 1;

        if selfcheck > 0 {
            if ev["light"] != true {
                self_checked += 1;
                for (f, e, a) in self_facets(&ev) {
                    if e != a && self_failures.len() < 20 {
                        let clip = |v: &Value| { let s = v.to_string(); if s.len() > 300 { format!("{}...", &s[..300]) } else { s } };
                        self_failures.push(json!({"step": ev["i"], "op": ev["a"]["op"], "facet": f,
                            "expected": clip(&e), "actual": clip(&a), "len": ev["st"]["len"]}));
                    }
                }
                if !ev["anom"].as_array().map(|v| v.is_empty()).unwrap_or(true) && self_failures.len() < 20 {
                    self_failures.push(json!({"step": ev["i"], "op": ev["a"]["op"], "facet": "anom",
                        "expected": "[]", "actual": ev["anom"].to_string()}));
                }
                // progress marker for the parent process
                writeln!(out, "{}", json!({"i": ev["i"], "len": ev["st"]["len"], "cap": ev["st"]["cap"]})).unwrap();
                out.flush().unwrap();
            }
        }
        else {
            writeln!(out, "{}", ev).unwrap();
            // the code under test may bring the process down: keep the log complete
            out.flush().unwrap();
        }
        if let Some(w) = script.as_mut() { writeln!(w, "{}", o).unwrap(); }

        if corrupt {
            // reported by the event above; nothing more can safely be executed
            let fin = session.abandon();
            writeln!(out, "{}", json!({"reset": true, "fin": fin, "leak_ok": true})).unwrap();
            if let Some(w) = script.as_mut() { writeln!(w, "{}", json!({"reset": true, "leak_ok": true})).unwrap(); }
            reg_reset();
            session = Session::new(cfg.clone());
            leaked = false;
            in_segment = 0;
        }
    }

    let fin = session.finish();
    writeln!(out, "{}", json!({"reset": true, "fin": fin, "leak_ok": leaked})).unwrap();
    if let Some(w) = script.as_mut() { writeln!(w, "{}", json!({"reset": true, "leak_ok": leaked})).unwrap(); w.flush().unwrap(); }
    out.flush().unwrap();
    println!("{}", json!({"seed": seed, "steps": steps, "profile": pname, "hasher": cfg.hasher,
        "keyform": format!("{:?}", cfg.keyform), "per_op": per_op, "crashes": crashes,
        "max_len": max_len, "max_buckets": max_buckets, "tombstone_states": tomb_states,
        "selfcheck_projections": self_checked, "selfcheck_failures": self_failures}));
}
