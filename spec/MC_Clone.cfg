SPECIFICATION Spec
CONSTANTS
  Overhead = 56
  GroupWidth = 16
  CacheIds = {1, 2}
  Keys <- CKeys
  KHeaps <- CKHeaps
  VSizes <- CVSizes
  Limits <- CLimits
  InitCaps <- CInitCaps
  Addl <- CAddl
  Ops <- COps
  MaxWord = 0
  Letters = {"n", "b"}
INVARIANT TypeOK
INVARIANT Inv
PROPERTY StepProp
VIEW CheckView
CHECK_DEADLOCK FALSE
