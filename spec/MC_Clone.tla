------------------------------ MODULE MC_Clone ------------------------------
(* Two cache instances: clone in every state, then every operation on       *)
(* either, including evictions in the clone and dropping either first.      *)
EXTENDS LruMemModel

O == Overhead
CKeys    == 1..2
CKHeaps  == {0}
CVSizes  == {0, 3}
CLimits  == {O + 3, 2 * O + 3, UMAX}
CInitCaps == {0}
CAddl    == {4}
COps     == {"insert", "get", "peek", "remove", "remove_lru", "mutate", "set_max_size",
             "clear", "reserve", "shrink_to_fit", "retain", "debug", "clone", "clone_from", "drop",
             "new"}
(* reduced constants: quick tier and the edge dump for replay *)
QCVSizes == {0, 3}
QCLimits == {2 * O + 3}
QCOps    == {"insert", "get", "remove", "mutate", "clear", "reserve", "clone", "clone_from", "drop",
             "new"}
=============================================================================
