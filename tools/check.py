#!/usr/bin/env python3
"""Entry point of the lru-mem verification machinery.

    python3 tools/check.py <Cxx> [--tier quick|thorough]     decide one property
    python3 tools/check.py setup                              build + self-test
    python3 tools/check.py replay <file>                      re-run a replay file

Exit 0: the property held on everything explored (KNOWN-FINDING lines may be printed).
Exit 1: a violation; a line `VIOLATION property=<id> replay=<path>` is printed.
Exit 2: tool error / timeout (never reported as a violation).

The work is organised in stages (TLC model checking, edge dump + covering tour,
replay on the real cache, random drive + TLC trace validation, ...).  A stage's
result is cached under /verif/.cache keyed by the hash of everything it depends on
(the sources under /repo, the harness, the specification, the tools, tier and
seed), so the 20 property checks share work, and any edit invalidates it."""
import fcntl
import hashlib
import json
import os
import shutil
import subprocess
import sys
import time

ROOT = os.path.dirname(os.path.dirname(os.path.abspath(__file__)))
REPO = os.environ.get("VERIF_REPO", "/repo")
CACHE = os.path.join(ROOT, ".cache")
SPEC = os.path.join(ROOT, "spec")
HARNESS = os.path.join(ROOT, "harness")
BIN = os.path.join(HARNESS, "target", "release")
REPLAYS = os.path.join(ROOT, "replays")
EVIDENCE = os.path.join(ROOT, "evidence")
KNOWN = os.path.join(ROOT, "KNOWN_FINDINGS.txt")
NCPU = os.cpu_count() or 4


class ToolError(Exception):
    pass


def log(*a):
    print("[check]", *a, file=sys.stderr, flush=True)


# --------------------------------------------------------------------------- hashing / cache

def tree_hash(paths, exts=None):
    h = hashlib.sha256()
    for p in paths:
        if os.path.isfile(p):
            files = [p]
        else:
            files = []
            for d, dn, fn in os.walk(p):
                dn[:] = sorted(x for x in dn if x not in ("target", ".git", "__pycache__", "states"))
                for f in sorted(fn):
                    if exts is None or os.path.splitext(f)[1] in exts:
                        files.append(os.path.join(d, f))
        for f in files:
            h.update(f.encode())
            with open(f, "rb") as fh:
                h.update(fh.read())
    return h.hexdigest()


_src_hash = None


def source_hash():
    global _src_hash
    if _src_hash is None:
        _src_hash = tree_hash([os.path.join(REPO, "src"), os.path.join(REPO, "Cargo.toml"),
                               os.path.join(REPO, "Cargo.lock"),
                               os.path.join(HARNESS, "src"), os.path.join(HARNESS, "Cargo.toml"),
                               os.path.join(HARNESS, ".cargo", "config.toml")])[:20]
    return _src_hash


_spec_hash = None


# bump when the logic of a stage in check.py / stages_ext.py changes what a stage produces
STAGE_VERSION = "22"


def spec_hash():
    """the specification and the generators that turn TLC output into test inputs; the
    orchestration (this file) is covered by STAGE_VERSION, so that editing an attribution
    rule does not recompute every model"""
    global _spec_hash
    if _spec_hash is None:
        tools = [os.path.join(ROOT, "tools", f) for f in ("walks.py", "gen_probes.py", "gen_borrow.py")]
        _spec_hash = tree_hash([SPEC] + tools, {".tla", ".cfg", ".py"})[:18] + "v" + STAGE_VERSION
    return _spec_hash


def dep_key(*paths):
    """identity of the cached inputs a stage reads (tour scripts, segment files of a dump stage):
    their paths contain the key of the stage that produced them, and a stage that stores or
    re-reads such a path must be recomputed when the producer's key (seed, specification,
    Overhead) changes - otherwise a cached result points into a directory the producer has
    already replaced"""
    return hashlib.sha256("\0".join(paths).encode()).hexdigest()[:8]


class Lock:
    def __init__(self, name):
        os.makedirs(CACHE, exist_ok=True)
        self.path = os.path.join(CACHE, name + ".lock")

    def __enter__(self):
        self.fh = open(self.path, "w")
        fcntl.flock(self.fh, fcntl.LOCK_EX)
        return self

    def __exit__(self, *a):
        fcntl.flock(self.fh, fcntl.LOCK_UN)
        self.fh.close()


def cached(stage, key, fn):
    """run fn(workdir) -> json-able result once per key"""
    d = os.path.join(CACHE, stage, key)
    res = os.path.join(d, "result.json")
    with Lock("stage-" + stage):
        if os.path.exists(res):
            with open(res) as fh:
                return json.load(fh)
        if os.path.exists(d):
            shutil.rmtree(d)
        # keep the cache small: drop other keys of this stage
        sd = os.path.join(CACHE, stage)
        if os.path.isdir(sd):
            for old in os.listdir(sd):
                shutil.rmtree(os.path.join(sd, old), ignore_errors=True)
        os.makedirs(d)
        t0 = time.time()
        out = fn(d)
        out["wall_s"] = round(time.time() - t0, 2)
        tmp = res + ".tmp"
        with open(tmp, "w") as fh:
            json.dump(out, fh)
        os.replace(tmp, res)
        return out


# --------------------------------------------------------------------------- running tools

def run(cmd, timeout, cwd=None, env=None, ok_codes=(0,)):
    e = dict(os.environ)
    if env:
        e.update(env)
    try:
        p = subprocess.run(cmd, cwd=cwd, env=e, stdout=subprocess.PIPE, stderr=subprocess.PIPE,
                           timeout=timeout, text=True, errors="replace")
    except subprocess.TimeoutExpired:
        raise ToolError("timeout after %ss: %s" % (timeout, " ".join(cmd[:6])))
    if ok_codes is not None and p.returncode not in ok_codes:
        raise ToolError("exit %s from %s\n%s\n%s" % (p.returncode, " ".join(cmd[:8]),
                                                    p.stdout[-3000:], p.stderr[-3000:]))
    return p


def point_crates_at_repo():
    """the three crates depend on the repository by path; VERIF_REPO redirects them (used to run
    the checks against a snapshot of the repository, e.g. under `vp run --with-repo`)"""
    import re
    for crate in ("harness", "memsize", "borrowprobe"):
        p = os.path.join(ROOT, crate, "Cargo.toml")
        if not os.path.exists(p):
            continue
        text = open(p).read()
        new = re.sub(r'lru-mem = \{ path = "[^"]*" \}', 'lru-mem = { path = "%s" }' % REPO, text)
        if new != text:
            with open(p, "w") as fh:
                fh.write(new)


def build_harness():
    """(re)build the harness against the working tree of the repository"""
    point_crates_at_repo()

    def go(d):
        env = {"CARGO_NET_OFFLINE": "true"}
        p = run(["cargo", "build", "--release", "--offline", "--bins"], 1800, cwd=HARNESS, env=env,
                ok_codes=None)
        if p.returncode != 0:
            raise ToolError("the harness does not build against %s:\n%s" % (REPO, p.stderr[-4000:]))
        info = json.loads(run([os.path.join(BIN, "info")], 60).stdout)
        return {"info": info}
    # cargo is incremental and fast when nothing changed; the stage is keyed on the sources
    # so that a changed /repo always triggers it
    return cached("build", source_hash(), go)


def info():
    return build_harness()["info"]


def spec_workdir(d):
    """copy the specification next to generated cfg files, with measured constants"""
    w = os.path.join(d, "spec")
    os.makedirs(w, exist_ok=True)
    inf = info()
    for f in os.listdir(SPEC):
        if f.endswith(".tla"):
            shutil.copy(os.path.join(SPEC, f), os.path.join(w, f))
        elif f.endswith(".cfg"):
            with open(os.path.join(SPEC, f)) as fh:
                text = fh.read()
            lines = []
            for line in text.splitlines():
                if line.strip().startswith("Overhead ="):
                    line = "  Overhead = %d" % inf["overhead"]
                lines.append(line)
            with open(os.path.join(w, f), "w") as fh:
                fh.write("\n".join(lines) + "\n")
    return w


def tlc(workdir, module, cfg, workers=1, timeout=1800, env=None, extra=None, heap="6g"):
    meta = os.path.join(workdir, "meta-" + cfg.replace(".cfg", ""))
    e = {"JAVA_TOOL_OPTIONS": "-Xss1g -Xmx%s -Dtlc2.tool.queue.IStateQueue=StateDeque" % heap}
    if env:
        e.update(env)
    cmd = ["tlc", "-workers", str(workers), "-metadir", meta, "-cleanup", "-noGenerateSpecTE",
           "-checkpoint", "0", "-config", cfg] + (extra or []) + [module]
    p = run(cmd, timeout, cwd=workdir, env=e, ok_codes=None)
    shutil.rmtree(meta, ignore_errors=True)
    return p


def parse_tlc_stats(text):
    import re
    out = {"states": 0, "transitions": 0, "ok": "Model checking completed. No error has been found." in text}
    m = re.search(r"(\d[\d,]*) states generated, (\d[\d,]*) distinct states found", text)
    if m:
        out["transitions"] = int(m.group(1).replace(",", ""))
        out["states"] = int(m.group(2).replace(",", ""))
    m = re.search(r"depth of the complete state graph search is (\d+)", text)
    if m:
        out["depth"] = int(m.group(1))
    errs = [l for l in text.splitlines() if l.startswith("Error:")]
    out["errors"] = errs[:5]
    return out


# --------------------------------------------------------------------------- stages

def tier_suffix(tier):
    return "Q" if tier == "quick" else ""


def stage_model(tier, module="MC_Small.tla", base="MC_Small", name="model"):
    """TLC on a bounded abstract model: invariants + declarative step properties"""
    def go(d):
        w = spec_workdir(d)
        cfg = "%s%s.cfg" % (base, tier_suffix(tier))
        if not os.path.exists(os.path.join(w, cfg)):
            cfg = base + ".cfg"                      # one configuration for both tiers
        p = tlc(w, module, cfg, workers=min(8, NCPU), timeout=3600, extra=["-coverage", "1"])
        text = p.stdout
        st = parse_tlc_stats(text)
        st["cfg"] = cfg
        st["coverage"] = parse_coverage(text)
        if not st["ok"]:
            st["output_tail"] = text[-6000:]
        shutil.rmtree(w, ignore_errors=True)
        return st
    return cached(name + "-" + tier, spec_hash() + "-" + str(info()["overhead"]), go)


def parse_coverage(text):
    """action name -> number of times TLC took it (from -coverage 1)"""
    import re
    cov = {}
    for m in re.finditer(r"<(\w+) line \d+, col \d+ to line \d+, col \d+ of module (\w+)>: (\d+):(\d+)", text):
        cov[m.group(1)] = max(cov.get(m.group(1), 0), int(m.group(4)))
    return cov


def stage_dump(tier, module="MC_Small.tla", base="MC_Dump", name="dump", segments=()):
    """TLC prints every transition of the bounded model; build the covering tour
    (and, on request, forget / crash segment files)"""
    def go(d):
        w = spec_workdir(d)
        cfg = "%s%s.cfg" % (base, tier_suffix(tier))
        p = tlc(w, module, cfg, workers=1, timeout=3600)
        dump = os.path.join(d, "dump.out")
        with open(dump, "w") as fh:
            fh.write(p.stdout)
        st = parse_tlc_stats(p.stdout)
        if not st["ok"]:
            raise ToolError("edge dump failed:\n" + p.stdout[-3000:])
        script = os.path.join(d, "tour.ndjson")
        seed = os.environ.get("VERIF_SEED", "0")
        steps = "20000" if tier == "quick" else "200000"
        q = run([sys.executable, os.path.join(ROOT, "tools", "walks.py"), "tour", dump, script,
                 "--random-steps", steps, "--seed", seed], 3600)
        st["tour"] = json.loads(q.stdout.strip().splitlines()[-1])
        st["script"] = script
        st["nontrivial"] = count_nontrivial(script)
        for mode, max_edges in segments:
            segfile = os.path.join(d, mode + "-segments.ndjson")
            q = run([sys.executable, os.path.join(ROOT, "tools", "walks.py"), mode, dump, segfile,
                     "--max-edges", str(max_edges), "--seed", seed], 3600)
            st[mode] = json.loads(q.stdout.strip().splitlines()[-1])
            st[mode]["file"] = segfile
        os.remove(dump)
        shutil.rmtree(w, ignore_errors=True)
        return st
    seed = os.environ.get("VERIF_SEED", "0")
    return cached(name + "-" + tier, spec_hash() + "-" + str(info()["overhead"]) + "-" + seed, go)


EVICTING = {"insert", "mutate", "set_max_size"}
PROMOTING = {"insert", "try_insert", "get", "get_entry", "get_lru", "touch", "mutate"}
READ_OPS = {"peek", "peek_entry", "peek_lru", "peek_mru", "contains", "len", "is_empty",
            "current_size", "max_size", "capacity", "debug", "hasher", "iter", "keys", "values", "clone",
            "clone_from"}
CAP_OPS = {"reserve", "try_reserve", "shrink_to", "shrink_to_fit"}
ITER_KINDS = {"iter", "keys", "values", "drain", "into_iter", "into_keys", "into_values"}
ERR_TAGS = {"EntryTooLarge", "WouldEjectLru", "OccupiedEntry"}


def nontrivial_props(line, pre):
    """which properties does this scripted step exercise non-trivially (rule per property)"""
    a = line["a"]
    ex = line.get("expect") or {}
    op = a["op"]
    t = ex.get("t") or {}
    ret = ex.get("ret") or {}
    props = set()
    ord_ = t.get("ord") or []
    if t.get("alive") and ord_ and abs(t["max"] - t["cur"]) < 8 and t["max"] >= 0:
        props.add("C01")                       # bound tight within a few bytes after the step
    if pre is not None and t.get("alive") and pre.get("cur") != t.get("cur"):
        props.add("C02")                       # the total changed
    if ex.get("ev"):
        props.add("C03")                       # something was evicted
    if op in ("insert", "try_insert", "get", "get_entry", "peek", "peek_entry", "contains",
              "remove", "remove_entry", "remove_lru", "remove_mru") and ord_ is not None:
        props.add("C04")
    if op in PROMOTING and pre is not None and len(pre.get("ord") or []) >= 2:
        props.add("C05")                       # promotion inside a list of >= 2
    if ex.get("dropped") or ex.get("handed"):
        props.add("C06")
    if ex.get("grew") or (pre is not None and pre.get("b") != t.get("b")):
        props.add("C07")                       # table replaced
    if op in ("insert", "try_insert") and ret.get("tag") in ERR_TAGS:
        props.add("C10")
    if op == "mutate" and ret.get("seq"):
        props.add("C11")
    if op in ITER_KINDS:
        props.add("C12")
        if a.get("fl"):
            props.add("C17")
    if op in CAP_OPS or ex.get("grew"):
        props.add("C13")
    if op in ("clone", "clone_from") or ex.get("nalive", 1) >= 2:
        props.add("C14")                       # a clone, or any call while two caches live
    if op == "retain" and pre is not None and pre.get("ord"):
        props.add("C15")
    if op in READ_OPS and pre is not None and pre.get("ord"):
        props.add("C19")
    if ex.get("ev") or ex.get("grew") or op in CAP_OPS or op in ("clone", "clone_from"):
        props.add("C20")                       # departures / rebuilds enter the bound
    return props


def count_nontrivial(script):
    """distinct non-trivial scripted steps per property (distinct by pre-state + op + args)"""
    seen = {}
    pre = None
    samples = {}
    with open(script) as fh:
        for raw in fh:
            line = json.loads(raw)
            if line.get("reset"):
                pre = None
                continue
            ex = line.get("expect") or {}
            key = json.dumps([pre, line["a"], line.get("c")], sort_keys=True)
            for p in nontrivial_props(line, pre):
                s = seen.setdefault(p, set())
                hk = hashlib.md5(key.encode()).digest()
                if hk not in s:
                    s.add(hk)
                    if len(samples.setdefault(p, [])) < 3:
                        samples[p].append({"pre": pre, "op": line["a"], "expected_ret": ex.get("ret"),
                                           "expected_post": ex.get("t")})
            pre = ex.get("t")
    return {"counts": {p: len(s) for p, s in seen.items()}, "samples": samples}


def core_dump(tier):
    return stage_dump(tier, segments=(("crash", 500 if tier == "quick" else 2000),))


def replay_configs(tier):
    hashers = ["const", "onebit", "default"] if tier == "quick" else \
              ["const", "onebit", "identity", "sip", "default", "siprand"]
    # reseed: a hash builder whose clone hashes differently (last, so that [:6] keeps the others)
    return [(h, k) for h in hashers for k in ("owned", "borrowed")] + \
           [("reseed", k) for k in (("owned",) if tier == "quick" else ("owned", "borrowed"))]


def stage_replay(tier, dump=None, name="replay", universe="3"):
    """execute the tour on the real cache under every configuration, compare by equality"""
    dump = dump or core_dump(tier)
    script = dump["script"]
    if not os.path.exists(script):
        raise ToolError("tour script vanished: " + script)

    def go(d):
        cfgs = replay_configs(tier)
        procs = []
        results = []
        seed = os.environ.get("VERIF_SEED", "0")
        for h, k in cfgs:
            mm = os.path.join(d, "mm-%s-%s.ndjson" % (h, k))
            cmd = [os.path.join(BIN, "run"), "--script", script, "--hasher", h, "--keyform", k,
                   "--universe", universe, "--seed", seed, "--compare", "--mismatches", mm,
                   "--max-mismatches", "50"]
            procs.append((h, k, mm, subprocess.Popen(cmd, stdout=subprocess.PIPE, stderr=subprocess.PIPE,
                                                      text=True, preexec_fn=limits())))
        for h, k, mm, p in procs:
            try:
                out, err = p.communicate(timeout=3600)
            except subprocess.TimeoutExpired:
                p.kill()
                raise ToolError("replay timeout")
            summ = None
            crashed = p.returncode != 0
            try:
                summ = json.loads(out.strip().splitlines()[-1])
            except Exception:
                crashed = True
            mismatches = read_ndjson(mm)
            results.append({"hasher": h, "keyform": k, "summary": summ, "mismatches": mismatches,
                            "crashed": crashed, "returncode": p.returncode, "stderr": err[-2000:]})
        return {"configs": results, "script": script}
    return cached(name + "-" + tier, source_hash() + "-" + spec_hash() + "-" +
                  os.environ.get("VERIF_SEED", "0") + "-" + dep_key(script), go)


SHAPES = ("plainkey", "plainval", "padded")
SHAPE_BIN = os.path.join(HARNESS, "target-shapes", "bin")


def stage_shapes(tier):
    """type shapes: the instrumented key / value types rebuilt (cargo features of the harness)
    without drop glue for the key, without drop glue for the value, and with a layout under
    which size_of::<Entry<K, V>>() exceeds the sizes of its parts; the covering tours of the core
    model and of the iterator model are replayed with each of them.  The shapes keep
    entry_size(k, v) = Overhead + heap sizes, so TLC's expectations apply unchanged."""
    import stages_ext
    dumps = [("core", core_dump(tier), "3"),
             ("iter", stage_dump(tier, module="MC_Iter.tla", base="MC_IterDump", name="dump-iter",
                                 segments=(("forget", 1500 if tier == "quick" else 4000),)), "4")]
    build_harness()

    def go(d):
        os.makedirs(SHAPE_BIN, exist_ok=True)
        base = info()
        facts = {}
        for sh in SHAPES:
            p = run(["cargo", "build", "--release", "--offline", "--bins", "--features", "shape_" + sh,
                     "--target-dir", "target-shapes"], 1800, cwd=HARNESS,
                    env={"CARGO_NET_OFFLINE": "true"}, ok_codes=None)
            if p.returncode != 0:
                raise ToolError("the harness (shape %s) does not build against %s:\n%s" % (sh, REPO, p.stderr[-3000:]))
            for b in ("run", "info"):
                shutil.copy(os.path.join(HARNESS, "target-shapes", "release", b), os.path.join(SHAPE_BIN, b + "-" + sh))
            f = json.loads(run([os.path.join(SHAPE_BIN, "info-" + sh)], 60).stdout)
            facts[sh] = f
            # vacuity guard: the shape is what it claims to be, and TLC's expectations still apply
            want_nd = {"plainkey": [False, True], "plainval": [True, False], "padded": [True, True]}[sh]
            if f["shape"] != sh or f["needs_drop"] != want_nd or f["overhead"] != base["overhead"]:
                raise ToolError("type shape %s is not what it should be: %s" % (sh, f))
            if sh == "padded" and f["key_size"] + f["value_size"] + 24 >= f["overhead"]:
                raise ToolError("type shape padded has no padding: %s" % f)
        results = []
        procs = []
        for sh in SHAPES:
            for which, dump, universe in dumps:
                for h, k in (("default", "owned"), ("const", "borrowed")):
                    mm = os.path.join(d, "mm-%s-%s-%s.ndjson" % (sh, which, h))
                    cmd = [os.path.join(SHAPE_BIN, "run-" + sh), "--script", dump["script"], "--hasher", h,
                           "--keyform", k, "--universe", universe, "--seed", "0", "--compare",
                           "--mismatches", mm, "--max-mismatches", "50"]
                    procs.append((sh, which, dump["script"], universe, h, k, mm,
                                  subprocess.Popen(cmd, stdout=subprocess.PIPE, stderr=subprocess.PIPE,
                                                   text=True, preexec_fn=limits())))
        for sh, which, script, universe, h, k, mm, p in procs:
            try:
                out, err = p.communicate(timeout=3600)
            except subprocess.TimeoutExpired:
                p.kill()
                raise ToolError("shape replay timeout")
            summ = None
            crashed = p.returncode != 0
            try:
                summ = json.loads(out.strip().splitlines()[-1])
            except Exception:
                crashed = True
            results.append({"shape": sh, "tour": which, "script": script, "universe": int(universe),
                            "hasher": h, "keyform": k, "summary": summ, "mismatches": read_ndjson(mm),
                            "crashed": crashed, "returncode": p.returncode, "stderr": err[-2000:]})
        return {"facts": facts, "configs": results}
    return cached("shapes-" + tier, source_hash() + "-" + spec_hash() + "-" + str(info()["overhead"]) + "-" +
                  dep_key(*[dump["script"] for _, dump, _ in dumps]), go)


def shapes_into(prop, tier, fnd, cov):
    """findings of the type-shape replays that belong to `prop`"""
    rep = stage_shapes(tier)
    executed = 0
    for c in rep["configs"]:
        if c["crashed"]:
            if prop in ("C07", "C06"):
                fnd.add("shape_replayer_crash", "replayer process (type shape %s) died (rc %s) under %s/%s: %s" %
                        (c["shape"], c["returncode"], c["hasher"], c["keyform"], c["stderr"][-300:]),
                        {"kind": "replay-crash", "script": c["script"], "hasher": c["hasher"],
                         "keyform": c["keyform"], "shape": c["shape"]})
            continue
        executed += c["summary"]["executed"]
        mine = []
        sigs = set()
        for m in c["mismatches"]:
            sig = "replay:%s:%s" % (m["op"], m["facet"])
            if prop in replay_owners(m) and sig not in sigs:
                sigs.add(sig)
                mine.append(m)
        segs = script_segments(c["script"], [m["line"] for m in mine[:4]])
        for m in mine[:4]:
            fnd.add("replay:%s:%s" % (m["op"], m["facet"]),
                    "replay with type shape %s, %s/%s, %s tour line %d op %s facet %s: expected %s, real cache gave %s" %
                    (c["shape"], c["hasher"], c["keyform"], c["tour"], m["line"], m["op"], m["facet"],
                     json.dumps(m["expected"])[:300], json.dumps(m["actual"])[:300]),
                    {"kind": "replay", "shape": c["shape"], "hasher": c["hasher"], "keyform": c["keyform"],
                     "universe": c["universe"], "ops": segs.get(m["line"], []), "facet": m["facet"],
                     "expected": m["expected"], "actual": m["actual"]})
    cov["type_shapes"] = {"shapes": list(SHAPES), "facts": rep["facts"],
                          "runs": len(rep["configs"]), "replayed_steps": executed}
    cov["replayed_steps"] = cov.get("replayed_steps", 0) + executed


def stage_segments(tier, segfile, name, universe="3", configs=None):
    """execute segment files (forgotten iterators, crash sweeps) on the real cache and let
    TLC validate every recorded event"""
    # every segment is swept (about 8 runs of 20 events each) and every event goes through
    # TLC: 6 configurations are what fits into a thorough run
    configs = configs or replay_configs(tier)[:6]

    def go(d):
        w = spec_workdir(d)

        def one(i, hk):
            def f():
                h, k = hk
                events = os.path.join(d, "events-%d.ndjson" % i)
                cmd = [os.path.join(BIN, "run"), "--segments", segfile, "--hasher", h, "--keyform", k,
                       "--universe", universe, "--events", events]
                p = subprocess.run(cmd, stdout=subprocess.PIPE, stderr=subprocess.PIPE, text=True,
                                   timeout=3600, preexec_fn=limits())
                if p.returncode != 0:
                    drop_partial_last_line(events)
                res = {"hasher": h, "keyform": k, "rc": p.returncode, "events_file": events,
                       "segments_file": segfile}
                if p.returncode != 0:
                    res["crashed"] = True
                    res["stderr"] = p.stderr[-1500:]
                    res["summary"] = None
                else:
                    res["summary"] = json.loads(p.stdout.strip().splitlines()[-1])
                ww = os.path.join(d, "w%d" % i)
                shutil.copytree(w, ww)
                res["validation"] = validate_trace(ww, events)
                shutil.rmtree(ww, ignore_errors=True)
                with open(events) as fh:
                    res["events"] = sum(1 for _ in fh)
                bad_lines = sorted({b["line"] for b in res["validation"]["bad"]})[:20]
                res["bad_context"] = trace_context(events, bad_lines)
                os.remove(events)
                return res
            return f
        results = run_parallel([one(i, hk) for i, hk in enumerate(configs)], max(2, NCPU // 3))
        shutil.rmtree(w, ignore_errors=True)
        return {"runs": results}
    import hashlib
    with open(segfile, "rb") as fh:
        seg_hash = hashlib.sha256(fh.read()).hexdigest()[:10]
    return cached(name + "-" + tier, source_hash() + "-" + spec_hash() + "-" + seg_hash + "-" +
                  os.environ.get("VERIF_SEED", "0") + "-" + dep_key(segfile), go)


def trace_context(events, lines):
    """for each bad line: the operations of its segment up to that line (replayable)"""
    if not lines:
        return {}
    want = set(lines)
    out = {}
    seg = []
    with open(events) as fh:
        for i, raw in enumerate(fh, 1):
            e = json.loads(raw)
            if e.get("reset"):
                seg = []
                continue
            o = {"c": e["c"], "d": e.get("d", 0), "a": e["a"]}
            if e["panic"]["armed"]:
                o["crash"] = {"kind": e["panic"]["armed"], "n": e["panic"]["n"]}
            seg.append(o)
            if i in want:
                out[str(i)] = list(seg)
    return out


def drive_plan(tier, seed):
    """(profile, hasher, keyform, steps, seed, crash_rate, forget_rate)"""
    plan = []
    if tier == "quick":
        base = [("small", "const", "owned", 2500), ("medium", "onebit", "borrowed", 2500),
                ("medium", "default", "owned", 2500), ("wide", "const", "borrowed", 2000),
                ("wide", "identity", "owned", 2000), ("churn", "const", "owned", 2000),
                ("churn", "sip", "borrowed", 2000), ("large", "default", "owned", 1200),
                ("fifo", "identity", "owned", 2500, 28), ("fifo", "const", "borrowed", 1500, 20),
                ("fifo", "default", "owned", 1500, 14), ("fifo", "identity", "borrowed", 2000, 29, "uniform"),
                ("medium", "default", "owned", 2000, 0, "cloneshift"),
                ("wide", "const", "borrowed", 1500, 0, "cloneshift")]
    else:
        base = []
        for i, h in enumerate(["const", "onebit", "identity", "sip", "default", "siprand"]):
            base.append(("medium", h, "owned" if i % 2 else "borrowed", 4000, 0, "cloneshift"))
            for j, prof in enumerate(["small", "medium", "wide", "churn", "large", "fifo"]):
                steps = {"small": 6000, "medium": 6000, "wide": 4000, "churn": 4000, "large": 2500,
                         "fifo": 2000 if h == "const" else 6000}[prof]
                base.append((prof, h, "owned" if (i + j) % 2 == 0 else "borrowed", steps))
    for n, job in enumerate(base):
        prof, h, k, steps = job[:4]
        j = {"profile": prof, "hasher": h, "keyform": k, "steps": steps,
             "seed": seed * 1000 + n + 1, "crash_rate": 0.0, "forget_rate": 0.0}
        if len(job) > 4:
            j["fit"] = job[4]
            j["uniform"] = len(job) > 5 and job[5] == "uniform"
            j["cloneshift"] = len(job) > 5 and job[5] == "cloneshift"
        elif prof == "fifo":
            j["fit"] = [28, 20, 14][n % 3]
        plan.append(j)
    return plan


def validate_trace(workdir, trace, timeout=3600, cfg="LruMemTrace.cfg", module="LruMemTrace.tla",
                   heap="4g", chunk=1500):
    """TLC trace validation.  A long trace is cut at reset lines (after which the specification's
    state is the initial one again) into pieces of about `chunk` events, so that TLC's JSON
    deserialisation stays within its heap; reported lines refer to the whole trace."""
    if module != "LruMemTrace.tla":
        return validate_one(workdir, trace, timeout, cfg, module, heap)
    with open(trace) as fh:
        lines = fh.readlines()
    if len(lines) <= chunk * 2:
        return validate_one(workdir, trace, timeout, cfg, module, heap)
    pieces = []
    start = 0
    for i, raw in enumerate(lines):
        if raw.startswith('{"reset"') or raw.startswith('{"fin"') or '"reset":true' in raw[:40]:
            if i + 1 - start >= chunk:
                pieces.append((start, i + 1))
                start = i + 1
    if start < len(lines):
        pieces.append((start, len(lines)))
    out = {"done": (0, 0), "bad": [], "ok": True, "tail": ""}
    for n, (a, b) in enumerate(pieces):
        part = "%s.part%d" % (trace, n)
        with open(part, "w") as fh:
            fh.writelines(lines[a:b])
        v = validate_one(workdir, part, timeout, cfg, module, heap)
        os.remove(part)
        for bad in v["bad"]:
            bad["line"] += a
        out["bad"] += v["bad"]
        if not v["ok"]:
            out["ok"] = False
            out["tail"] = v["tail"]
            break
        if v["done"]:
            out["done"] = (out["done"][0] + v["done"][0], out["done"][1] + v["done"][1])
    return out


def validate_one(workdir, trace, timeout=3600, cfg="LruMemTrace.cfg", module="LruMemTrace.tla",
                 heap="4g"):
    """one TLC run over one trace file"""
    p = tlc(workdir, module, cfg, workers=1, timeout=timeout, env={"TRACE": trace}, heap=heap)
    bad = []
    done = None
    for line in p.stdout.splitlines():
        if line.startswith('<<"BAD", "'):
            body = line[len('<<"BAD", "'):]
            if body.endswith('">>'):
                body = body[:-3]
            body = body.replace('\\"', '"').replace("\\\\", "\\")
            try:
                bad.append(json.loads(body))
            except Exception:
                bad.append({"line": -1, "op": "?", "bad": [["?", body[:200]]]})
        elif line.startswith('<<"TRACE-DONE"') and done is None:
            parts = line.strip("<>").split(",")
            done = (int(parts[1]), int(parts[2]))
    ok = "Model checking completed. No error has been found." in p.stdout
    return {"done": done, "bad": bad, "ok": ok, "tail": "" if ok else p.stdout[-3000:]}


def read_ndjson(path):
    """lines written by a process that may have died in the middle of one"""
    out = []
    if os.path.exists(path):
        with open(path, errors="replace") as fh:
            for x in fh:
                if x.strip():
                    try:
                        out.append(json.loads(x))
                    except Exception:
                        pass
    return out


def drop_partial_last_line(path):
    with open(path, "rb") as fh:
        data = fh.read()
    keep = data[:data.rfind(b"\n") + 1]
    lines = keep.splitlines()
    while lines:
        try:
            json.loads(lines[-1])
            break
        except Exception:
            lines.pop()
    with open(path, "wb") as fh:
        fh.write(b"\n".join(lines) + (b"\n" if lines else b""))


def limits(address_space=True):
    """preexec_fn for processes that execute the code under test: a corrupted cache must
    not be able to eat the machine (address space 6 GiB; cpu time 2 min in the quick tier,
    where the largest legitimate run takes seconds, 15 min in the thorough tier)"""
    import resource
    cpu = 120 if os.environ.get("VERIF_TIER_EFFECTIVE", "quick") == "quick" else 900

    def f():
        if address_space:
            resource.setrlimit(resource.RLIMIT_AS, (6 << 30, 6 << 30))
        resource.setrlimit(resource.RLIMIT_CPU, (cpu, cpu))
    return f


def run_parallel(jobs, nproc):
    """jobs: list of callables; run with a pool of threads (they wait on subprocesses)"""
    from concurrent.futures import ThreadPoolExecutor
    with ThreadPoolExecutor(max_workers=nproc) as ex:
        return list(ex.map(lambda f: f(), jobs))


def stage_drive(tier, name="drive", plan=None):
    """random histories on the real cache, each validated by TLC against the spec"""
    seed = int(os.environ.get("VERIF_SEED", "0"))
    plan = plan or drive_plan(tier, seed)

    def go(d):
        w = spec_workdir(d)

        def one(i, job):
            def f():
                trace = os.path.join(d, "trace-%d.ndjson" % i)
                script = os.path.join(d, "script-%d.ndjson" % i)
                cmd = [os.path.join(BIN, "drive"), "--seed", str(job["seed"]), "--steps", str(job["steps"]),
                       "--profile", job["profile"], "--hasher", job["hasher"], "--keyform", job["keyform"],
                       "--events", trace, "--script-out", script,
                       "--crash-rate", str(job["crash_rate"]), "--forget-rate", str(job["forget_rate"]),
                       "--segment", str(job.get("segment", 1500 if job["profile"] == "fifo" else 500))]
                if job.get("fit"):
                    cmd += ["--fit", str(job["fit"])]
                if job.get("uniform"):
                    cmd += ["--uniform"]
                if job.get("cloneshift"):
                    cmd += ["--cloneshift"]
                p = subprocess.run(cmd, stdout=subprocess.PIPE, stderr=subprocess.PIPE, text=True, timeout=1800,
                                   preexec_fn=limits())
                res = {"job": job, "trace": trace, "script": script, "driver_rc": p.returncode}
                if p.returncode != 0:
                    # the code under test brought the process down: that is data
                    res["driver_crashed"] = True
                    res["stderr"] = p.stderr[-1500:]
                    res["summary"] = None
                else:
                    res["summary"] = json.loads(p.stdout.strip().splitlines()[-1])
                if p.returncode != 0:
                    drop_partial_last_line(trace)
                ww = os.path.join(d, "w%d" % i)
                shutil.copytree(w, ww)
                res["validation"] = validate_trace(ww, trace)
                shutil.rmtree(ww, ignore_errors=True)
                with open(trace) as fh:
                    res["events"] = sum(1 for _ in fh)
                if not res["validation"]["bad"] and res["validation"]["ok"] and p.returncode == 0:
                    os.remove(trace)
                    os.remove(script)
                return res
            return f
        results = run_parallel([one(i, j) for i, j in enumerate(plan)], max(2, NCPU // 3))
        shutil.rmtree(w, ignore_errors=True)
        return {"runs": results}
    return cached(name + "-" + tier, source_hash() + "-" + spec_hash() + "-" + str(seed), go)


def big_crash_segments(path, tier):
    """crash sweeps on caches of 70-112 entries (the bounded model has 3): panics at EVERY
    callback of a reallocation, a growing insertion at an exactly full table, a clone, a
    retain and a mass eviction.  Long prefixes are replayed silently after the first run."""
    def opl(op, **kw):
        a = {"op": op, "k": 0, "kh": 0, "vs": 0, "n": 0, "keep": [], "w": [], "fl": False}
        a.update(kw)
        return {"c": 1, "d": 0, "a": a}

    def fill(n, cap=0):
        return [opl("new", n=-1, kh=cap)] + [opl("insert", k=i, kh=0, vs=i % 3) for i in range(1, n + 1)]
    suffix = [opl("len"), opl("get_lru"), opl("insert", k=1, vs=1), opl("remove_mru"), opl("debug"),
              opl("clear")]
    segs = [
        {"prefix": fill(70), "op": opl("reserve", n=100), "sweep": ["hash"]},
        {"prefix": fill(70) + [opl("remove", k=i) for i in (3, 9, 27)], "op": opl("shrink_to_fit"),
         "sweep": ["hash"]},
        {"prefix": fill(112), "op": opl("insert", k=500, vs=1), "sweep": ["hash"]},
        {"prefix": fill(70), "op": opl("try_reserve", n=100), "sweep": ["hash", "alloc"]},
        {"prefix": fill(70), "op": dict(opl("clone"), d=2), "sweep": ["clone", "hash"]},
        {"prefix": fill(70), "op": opl("retain", keep=list(range(1, 71, 3))), "sweep": ["closure", "eq"]},
        {"prefix": fill(70), "op": opl("set_max_size", n=56 * 8), "sweep": ["hash", "eq"]},
    ]
    if tier != "quick":
        segs += [
            {"prefix": fill(200), "op": opl("reserve", n=300), "sweep": ["hash"]},
            {"prefix": fill(224), "op": opl("insert", k=900, vs=2), "sweep": ["hash"]},
            {"prefix": fill(150), "op": opl("shrink_to", n=10), "sweep": ["hash"]},
        ]
    # continued use of an entry whose closure panicked after changing the value: the recorded
    # size lags behind the value (C16 allows that), and the NEXT mutate of the same key must
    # still keep the accounting sane (shrink below, grow beyond, overflow the limit)
    after = []
    for big in (30, 300, 2000):
        for later in (0, 5, 400, 3000):
            after.append({"prefix": [opl("new", n=1000, kh=0), opl("insert", k=1, vs=4), opl("insert", k=2, vs=1)],
                          "op": opl("mutate", k=1, vs=big), "sweep": ["closure_after", "size"],
                          "ns": [1, 2, 3, 4],
                          "suffix": [opl("len"), opl("mutate", k=1, vs=later), opl("len"), opl("insert", k=3, vs=1),
                                     opl("len"), opl("remove", k=1), opl("current_size"), opl("clear")]})
    with open(path, "w") as fh:
        for s in after:
            fh.write(json.dumps(s, separators=(",", ":")) + "\n")
        for s in segs:
            s["suffix"] = suffix
            s["quiet_prefix"] = True
            # callbacks to arm: the first few, and those around every power of two, the 64-entry
            # block boundary, and the number of entries
            s["ns"] = [1, 2, 3, 5, 8, 15, 16, 17, 31, 32, 33, 63, 64, 65, 66, 69, 70, 71, 72, 100, 111, 112,
                       113, 114, 127, 128, 129, 149, 150, 151, 199, 200, 201, 223, 224, 225, 226]
            fh.write(json.dumps(s, separators=(",", ":")) + "\n")
    return len(segs)


def full_table_segments(path, tier):
    """mass departures from tables that are EXACTLY full (28 of 32, 56 of 64, 112 of 128 buckets'
    worth of entries: every erased slot lies in a full probe group and stays a tombstone, the
    growth budget is used up), followed by insertions that reuse the vacated buckets and by
    lookups of every key.  This is where an operation that tidies the table up after removing
    entries (rehash in place, shrink, rebuild) moves entries under the list's feet; the bounded
    model cannot reach it (4-8 buckets, no tombstones) and random traces rarely sit exactly on a
    capacity."""
    def opl(op, **kw):
        a = {"op": op, "k": 0, "kh": 0, "vs": 0, "n": 0, "keep": [], "w": [], "fl": False}
        a.update(kw)
        return {"c": 1, "d": 0, "a": a}

    def fill(keys, cap=0, limit=-1):
        return [opl("new", n=limit, kh=cap)] + [opl("insert", k=k, kh=0, vs=i % 3) for i, k in enumerate(keys, 1)]
    segs = []
    sizes = (28, 56) if tier == "quick" else (14, 28, 56, 112, 224)
    for n in sizes:
        buckets = n * 8 // 7
        # key ids 1..n sit in their ideal buckets under the identity hasher; in the colliding
        # variant the second half has the same residues as the first and is displaced by n/2
        # buckets (an entry that is not where its hash points is what a rehash in place moves)
        for keys in (list(range(1, n + 1)),
                     list(range(1, n // 2 + 1)) + list(range(buckets + 1, buckets + n // 2 + 1))):
            total = sum(64 + i % 3 for i in range(1, n + 1))
            K = lambda idx: [keys[i - 1] for i in idx]
            suffix = [opl("len"), opl("debug")] + \
                     [opl("insert", k=1000 + i, vs=1) for i in range(6)] + \
                     [opl("debug"), opl("get", k=keys[-1]), opl("get", k=keys[-2]), opl("peek", k=keys[6]),
                      opl("get_lru"), opl("insert", k=keys[-1], vs=2), opl("remove_lru"),
                      opl("retain", keep=[keys[-1], 1000, 1003]),
                      opl("debug"), opl("shrink_to_fit"), opl("insert", k=2000), opl("debug"), opl("clear")]
            masses = [
                opl("retain", keep=K(range(7, n + 1, 7))),              # few survivors, spread out
                opl("retain", keep=K(range(n - 5, n + 1))),             # only the newest (displaced ones)
                opl("retain", keep=K(range(1, n + 1, 2))),              # every other one
                opl("retain", keep=K(range(1, 4))),                     # only the oldest
                opl("set_max_size", n=6 * 64 + 12),                     # all but the newest six evicted
                opl("mutate", k=keys[0], vs=total - 3 * 66),            # the LRU entry grows: mass eviction
                opl("insert", k=3000, vs=total - 4 * 66),               # a huge entry: mass eviction
                opl("drain", w=["n", "b", "n"]),
                opl("clear"),
            ]
            for m in masses:
                lim = total if m["a"]["op"] in ("mutate", "insert") else -1
                for cap in (0, n):
                    segs.append({"prefix": fill(keys, cap=cap, limit=lim), "op": m, "suffix": suffix,
                                 "quiet_prefix": True})
            # one at a time: remove_lru until three remain, each a logged event
            segs.append({"prefix": fill(keys), "op": opl("remove_lru"),
                         "suffix": [opl("remove_lru") for _ in range(n - 4)] + suffix, "quiet_prefix": True})
    with open(path, "w") as fh:
        for s in segs:
            fh.write(json.dumps(s, separators=(",", ":")) + "\n")
    return len(segs)


def stage_fulltable(tier):
    d0 = os.path.join(CACHE, "fulltable-segments-%s.ndjson" % tier)
    os.makedirs(CACHE, exist_ok=True)
    n = full_table_segments(d0, tier)
    cfgs = [("identity", "owned"), ("default", "borrowed")] if tier == "quick" else \
           [("identity", "owned"), ("default", "borrowed"), ("sip", "owned"), ("const", "borrowed")]
    res = stage_segments(tier, d0, "segments-fulltable", universe="8", configs=cfgs)
    res["segments"] = n
    return res


def fulltable_into(prop, tier, fnd, cov):
    seg = stage_fulltable(tier)
    events = 0
    for r in seg["runs"]:
        v = r["validation"]
        if r.get("crashed") and prop == "C07":
            fnd.add("process_died:fulltable",
                    "the process running the full-table segments died (rc %s) under %s/%s: %s" %
                    (r["rc"], r["hasher"], r["keyform"], r.get("stderr", "")[-300:]),
                    {"kind": "segments", "file": r["segments_file"], "hasher": r["hasher"],
                     "keyform": r["keyform"]})
        if not v["ok"]:
            raise ToolError("TLC could not evaluate a full-table trace:\n%s" % v["tail"])
        events += r["events"]
        for b in v["bad"]:
            for pr, facet in b["bad"]:
                if pr == prop:
                    ops = r.get("bad_context", {}).get(str(b["line"]), [])
                    sig = "fulltable:%s:%s" % (b["op"], facet)
                    if facet == "shrink_raises_with_tombstones":
                        sig = facet                # finding F5, wherever it is met
                    fnd.add(sig, "full-table segment under %s/%s, event %d: op %s: facet %s rejected" %
                            (r["hasher"], r["keyform"], b["line"], b["op"], facet),
                            {"kind": "trace", "hasher": r["hasher"], "keyform": r["keyform"],
                             "universe": 8, "ops": ops, "facet": facet})
    cov["full_table_segments"] = seg["segments"]
    cov["traces_validated_against_impl"] = cov.get("traces_validated_against_impl", 0) + len(seg["runs"])
    cov["trace_events"] = cov.get("trace_events", 0) + events


def stage_bigcrash(tier):
    d0 = os.path.join(CACHE, "bigcrash-segments-%s.ndjson" % tier)
    os.makedirs(CACHE, exist_ok=True)
    n = big_crash_segments(d0, tier)
    cfgs = [("default", "owned"), ("identity", "borrowed")] if tier == "quick" else \
           [("default", "owned"), ("identity", "borrowed"), ("sip", "owned"), ("onebit", "borrowed")]
    res = stage_segments(tier, d0, "segments-bigcrash", universe="8", configs=cfgs)
    res["segments"] = n
    return res


def stage_apalache(tier):
    """optional unbounded layer: Apalache discharges the inductive invariant of spec/LruCore.tla
    (order-free core: cur = sum of recorded sizes, cur <= max) - base case and inductive step,
    for symbolic sizes and limits and histories of any length.  No verdict depends on it; the
    outcome (discharged / counterexample / timed out / unavailable) is reported in the evidence."""
    def go(d):
        w = spec_workdir(d)
        out = {}
        for name, args in (("base_case", ["--init=Init", "--length=0"]),
                           ("inductive_step", ["--init=IndInit", "--length=1"])):
            try:
                p = run(["apalache-mc", "check", "--cinit=ConstInit", "--inv=IndInv",
                         "--out-dir=" + os.path.join(d, "apa-" + name)] + args + ["LruCore.tla"],
                        900, cwd=w, ok_codes=None)
                out[name] = ("discharged" if "The outcome is: NoError" in p.stdout else
                             "counterexample" if "The outcome is: Error" in p.stdout else
                             "unavailable: " + (p.stdout + p.stderr)[-200:])
            except ToolError as e:
                out[name] = "timed out" if "timeout" in str(e) else "unavailable: " + str(e)[:200]
            except FileNotFoundError:
                out[name] = "unavailable: apalache-mc not installed"
        shutil.rmtree(w, ignore_errors=True)
        for name in ("base_case", "inductive_step"):
            shutil.rmtree(os.path.join(d, "apa-" + name), ignore_errors=True)
        return out
    return cached("apalache-" + tier, spec_hash(), go)


def stage_scale(tier):
    """large-scale runs: thousands of entries, tens / hundreds of thousands of calls.  No TLC
    here (one event would be megabytes): every n-th state is projected and the structural
    self-consistency facets (harness/src/exec.rs self_facets: mirror traversals, iterated entry =
    looked-up entry = list node, sum of recorded sizes, entry_size = recorded, the bound, lookups
    of 6 000 keys against the traversal, no duplicate keys) are evaluated on the real state."""
    seed = int(os.environ.get("VERIF_SEED", "0"))
    jobs = [("default", "owned", 40000, 200)] if tier == "quick" else \
           [("default", "owned", 400000, 400), ("identity", "borrowed", 300000, 400),
            ("sip", "owned", 300000, 400), ("siprand", "borrowed", 300000, 400)]

    def go(d):
        def one(i, job):
            def f():
                h, k, steps, every = job
                out = os.path.join(d, "scale-%d.out" % i)
                cmd = [os.path.join(BIN, "drive"), "--seed", str(seed * 100 + i + 11), "--steps", str(steps),
                       "--segment", "100000000", "--profile", "huge", "--hasher", h, "--keyform", k,
                       "--events", out, "--selfcheck", str(every)]
                p = subprocess.run(cmd, stdout=subprocess.PIPE, stderr=subprocess.PIPE, text=True,
                                   timeout=3600, preexec_fn=limits())
                res = {"hasher": h, "keyform": k, "steps": steps, "rc": p.returncode,
                       "stderr": p.stderr[-800:], "summary": None}
                if p.returncode == 0:
                    res["summary"] = json.loads(p.stdout.strip().splitlines()[-1])
                else:
                    try:
                        with open(out) as fh:
                            res["last_progress"] = fh.readlines()[-1].strip()
                    except Exception:
                        pass
                if os.path.exists(out):
                    os.remove(out)
                return res
            return f
        return {"runs": run_parallel([one(i, j) for i, j in enumerate(jobs)], 4)}
    return cached("scale-" + tier, source_hash() + "-" + spec_hash() + "-" + str(seed), go)


SELF_FACET_OWNERS = {
    "trav": ["C07"], "bound": ["C01"], "bound_held": ["C01"], "es_eq_rec": ["C02"], "sum_rec": ["C02"], "len": ["C02"],
    "is_empty": ["C02"], "mirror": ["C07"], "keysiter": ["C07"], "vals_ok": ["C07"],
    "ptr_iter": ["C07"], "ptr_peek": ["C07"], "dead": ["C07"], "hook_cur": ["C07"], "lru": ["C05"],
    "mru": ["C05"], "nodup": ["C04"], "probe": ["C04"], "probe_ro": ["C19"], "anom": ["C06"],
}


def scale_into(prop, tier, fnd, cov):
    sc = stage_scale(tier)
    calls = 0
    proj = 0
    biggest = 0
    for r in sc["runs"]:
        if r["rc"] != 0:
            oom = "memory allocation of" in (r.get("stderr") or "")
            stopped = r["rc"] in (-9, -24)
            owners = ["C13"] if oom else (["C07", "C02"] if stopped else ["C07"])
            if prop in owners:
                fnd.add("scale_run_died", "large-scale run (%s/%s) died with rc %s after %s: %s" %
                        (r["hasher"], r["keyform"], r["rc"], r.get("last_progress"), r["stderr"][-300:]),
                        {"kind": "scale", "job": r})
            continue
        s = r["summary"]
        calls += s["steps"]
        proj += s["selfcheck_projections"]
        biggest = max(biggest, s["max_len"])
        for f in s["selfcheck_failures"]:
            if prop in SELF_FACET_OWNERS.get(f["facet"], []):
                fnd.add("scale:%s" % f["facet"],
                        "large-scale run (%s/%s, seed-derived): after call %s (%s, %s entries) the cache "
                        "contradicts itself in facet %s: should be %s, is %s" %
                        (r["hasher"], r["keyform"], f["step"], f["op"], f.get("len"), f["facet"],
                         f["expected"][:200], f["actual"][:200]),
                        {"kind": "scale", "hasher": r["hasher"], "keyform": r["keyform"], "failure": f})
    cov["scale_calls"] = calls
    cov["scale_states_checked"] = proj
    cov["largest_cache_at_scale"] = biggest


def stage_asan(tier, script, segfiles=(), name="asan"):
    """the same replay / segment inputs executed by a binary built with AddressSanitizer
    (nightly, -Zsanitizer=address): an extra observation channel on the conformance run for the
    memory clauses of C07 / C16 / C17 - a read of freed or moved-out table memory that leaves
    no trace in the state still aborts here.  Unavailable toolchain = channel reported absent."""
    steps = 40000 if tier == "quick" else 400000

    def go(d):
        tdir = os.path.join(HARNESS, "target-asan")
        env = {"CARGO_NET_OFFLINE": "true",
               "RUSTFLAGS": "--cfg lru_mem_verif --check-cfg cfg(lru_mem_verif) -Zsanitizer=address",
               "CARGO_TARGET_DIR": tdir}
        b = run(["cargo", "+nightly", "build", "--release", "--offline", "--target",
                 "x86_64-unknown-linux-gnu", "--bin", "run"], 1800, cwd=HARNESS, env=env, ok_codes=None)
        if b.returncode != 0:
            return {"available": False, "why": b.stderr[-600:]}
        exe = os.path.join(tdir, "x86_64-unknown-linux-gnu", "release", "run")
        aenv = dict(os.environ, ASAN_OPTIONS="detect_leaks=0:abort_on_error=1:allocator_may_return_null=1")
        runs = []

        def one(kind, path, extra):
            def f():
                prog = os.path.join(d, "progress-%s-%s" % (kind, os.path.basename(path)))
                cmd = [exe, "--hasher", "const", "--keyform", "owned", "--universe", "3", "--progress", prog] + extra
                p = subprocess.run(cmd, stdout=subprocess.PIPE, stderr=subprocess.PIPE, text=True,
                                   timeout=3600, env=aenv, preexec_fn=limits(address_space=False))
                at = 0
                try:
                    at = int(open(prog).read().strip() or 0)
                except Exception:
                    pass
                rep = p.stderr
                i = rep.find("ERROR: AddressSanitizer")
                res = {"kind": kind, "input": path, "rc": p.returncode, "at": at,
                       "asan": rep[i:i + 1500] if i >= 0 else "", "stderr_tail": rep[-300:] if i < 0 else ""}
                try:
                    res["summary"] = json.loads(p.stdout.strip().splitlines()[-1])
                except Exception:
                    res["summary"] = None
                return res
            return f
        jobs = [one("replay", script, ["--script", script, "--stop-after", str(steps)])]
        for sf in segfiles:
            jobs.append(one("segments", sf, ["--segments", sf, "--events", os.devnull]))
        return {"available": True, "runs": run_parallel(jobs, 4)}
    return cached(name + "-" + tier, source_hash() + "-" + spec_hash() + "-" +
                  os.environ.get("VERIF_SEED", "0") + "-" + dep_key(script, *segfiles), go)


def stage_roguard(tier, dump, name="roguard"):
    """C19: every shared-reference operation of the tour is executed a second time with the
    cache's own memory (table allocation + seal) mapped read-only (mprotect); a &self method
    that writes - even one that restores what it wrote - kills the process with SIGSEGV."""
    steps = 150000 if tier == "quick" else 1000000
    script = dump["script"]

    def go(d):
        def one(i, hk):
            def f():
                h, k = hk
                rog = os.path.join(d, "rog-%d" % i)
                prog = os.path.join(d, "prog-%d" % i)
                cmd = [os.path.join(BIN, "run"), "--script", script, "--hasher", h, "--keyform", k,
                       "--universe", "3", "--roguard", rog, "--progress", prog, "--stop-after", str(steps)]
                p = subprocess.run(cmd, stdout=subprocess.PIPE, stderr=subprocess.PIPE, text=True,
                                   timeout=3600, preexec_fn=limits())
                res = {"hasher": h, "keyform": k, "rc": p.returncode, "stderr": p.stderr[-400:]}
                for key, path in (("in_window_step", rog), ("line", prog)):
                    try:
                        res[key] = int(open(path).read().strip() or 0)
                    except Exception:
                        res[key] = 0
                try:
                    res["summary"] = json.loads(p.stdout.strip().splitlines()[-1])
                except Exception:
                    res["summary"] = None
                return res
            return f
        cfgs = [("const", "owned"), ("default", "borrowed")]
        return {"runs": run_parallel([one(i, hk) for i, hk in enumerate(cfgs)], 2), "script": script}
    return cached(name + "-" + tier, source_hash() + "-" + spec_hash() + "-" +
                  os.environ.get("VERIF_SEED", "0") + "-" + dep_key(script), go)


def roguard_into(prop, res, fnd, cov):
    windows = 0
    for r in res["runs"]:
        if r["summary"]:
            windows += r["summary"].get("roguard_windows", 0)
        if r["rc"] != 0 and r["in_window_step"] > 0:
            ops = script_segment(res["script"], r["line"])
            fnd.add("roguard:%s" % (ops[-1]["a"]["op"] if ops else "?"),
                    "a shared-reference operation wrote to the cache's memory: with table and seal mapped "
                    "read-only the process died (rc %s) inside %s at script line %s (%s/%s)" %
                    (r["rc"], ops[-1]["a"]["op"] if ops else "?", r["line"], r["hasher"], r["keyform"]),
                    {"kind": "replay", "hasher": r["hasher"], "keyform": r["keyform"], "universe": 3,
                     "ops": ops, "facet": "roguard", "expected": "no write", "actual": "SIGSEGV"})
    cov["readonly_windows"] = windows


def asan_into(prop, res, fnd, cov, what):
    cov.setdefault("asan_channel", {})[what] = "unavailable" if not res.get("available") else "ran"
    if not res.get("available"):
        return
    for r in res["runs"]:
        s = r.get("summary") or {}
        cov["asan_steps"] = cov.get("asan_steps", 0) + int(s.get("executed", 0))
        if r["asan"]:
            ops = []
            if r["kind"] == "replay":
                ops = script_segment(r["input"], r["at"])
            else:
                try:
                    with open(r["input"]) as fh:
                        for i, raw in enumerate(fh, 1):
                            if i == r["at"]:
                                seg = json.loads(raw)
                                ops = seg["prefix"] + [seg["op"]] + seg.get("suffix", [])
                except Exception:
                    pass
            fnd.add("asan:%s" % r["kind"],
                    "AddressSanitizer aborted the %s run at input line %s: %s" %
                    (r["kind"], r["at"], r["asan"][:500].replace("\n", " | ")),
                    {"kind": "asan", "hasher": "const", "keyform": "owned", "universe": 3, "ops": ops[-300:],
                     "report": r["asan"]})


# --------------------------------------------------------------------------- attribution

def ret_owner(op, tag):
    if op in ("insert", "try_insert"):
        return ["C10"] if tag in ERR_TAGS else ["C04"]
    if op in ("get", "get_entry", "peek", "peek_entry", "contains", "remove", "remove_entry", "touch"):
        return ["C04"]
    if op in ("get_lru", "peek_lru", "peek_mru", "remove_lru", "remove_mru", "debug"):
        return ["C05"]
    if op == "mutate":
        return ["C11"]
    if op == "retain":
        return ["C15"]
    if op in CAP_OPS or op == "capacity":
        return ["C13"]
    if op in ("len", "is_empty", "current_size"):
        return ["C02"]
    if op == "max_size":
        return ["C01"]
    if op == "hasher":
        return ["C19"]
    if op in ITER_KINDS:
        return ["C12"]
    return ["C04"]


def replay_owners(m):
    """properties a replay mismatch speaks about (mirrors CallBad in LruMemTrace.tla).
    The replayer compares content-dependent facets only when the key sets agree, so each
    mismatch reported for a step is a root cause, not a consequence of another one."""
    f = m["facet"]
    op = m.get("op") or ""
    a = m.get("a") or {}
    if op in ITER_KINDS and a.get("fl"):
        return ["C17"]
    exp, act = m.get("expected"), m.get("actual")
    if f == "keys":
        if isinstance(exp, list) and isinstance(act, list) and sorted(exp) == sorted(act):
            return ["C05"]                  # same entries, different recency order
        failed = (m.get("exp_tag") in ERR_TAGS) or (m.get("act_tag") in ERR_TAGS)
        if op in EVICTING and not failed:
            # entries left / stayed that should not have; mutate's own statement covers its evictions too
            return ["C03"] + (["C11"] if op == "mutate" else [])
        if op == "retain":
            return ["C15"]
        if op in ITER_KINDS:
            return ["C12"]
        return ["C04", "C03"]               # an entry was lost (or invented) outside any eviction
    table = {
        "trav": ["C07"], "max": ["C01"], "bound": ["C01"], "bound_held": ["C01"], "cap": ["C13"], "b": ["C13"],
        "es_eq_rec": ["C02"], "sum_rec": ["C02"], "len": ["C02"], "is_empty": ["C02"],
        "mirror": ["C07"], "keysiter": ["C07"], "vals_ok": ["C07"], "ptr_iter": ["C07"],
        "ptr_peek": ["C07"], "dead": ["C07"], "hook_cur": ["C07"], "lru": ["C05"], "mru": ["C05"],
        "marks": ["C06", "C04"], "nodup": ["C04"], "probe": ["C04"], "probe_ro": ["C19"],
        "readonly_fp": ["C19"], "others": ["C14"], "hashes": ["C20"], "end_of_life": ["C06"],
        "alive": ["C12"],
    }
    if f in table:
        return table[f]
    if f == "sizes":
        return ["C11"] if op == "mutate" else ["C04"]
    if f in ("rec", "cur"):
        return ["C02"] + (["C11"] if op == "mutate" else [])
    if f in ("ret", "panic"):
        etag = exp.get("tag") if isinstance(exp, dict) else ""
        atag = act.get("tag") if isinstance(act, dict) else ""
        if op in ("insert", "try_insert"):
            return ["C10"] if (etag in ERR_TAGS or atag in ERR_TAGS) else ["C04"]
        return ret_owner(op, etag)
    if f in ("anom", "conservation"):
        return ["C06"]
    if f in ("dropped", "handed"):
        # WHICH objects are dropped / handed back belongs to the property owning the call's result
        if op in ("set_max_size", "clear"):
            return ["C03"]
        etag = m.get("exp_tag") or ""
        atag = m.get("act_tag") or ""
        if op in ("insert", "try_insert"):
            return ["C10"] if (etag in ERR_TAGS or atag in ERR_TAGS) else ["C04"]
        return ret_owner(op, etag)
    if f.startswith("clone_"):
        if f == "clone_ord" and isinstance(exp, list) and isinstance(act, list) \
                and sorted(json.dumps(r) for r in exp) == sorted(json.dumps(r) for r in act):
            return ["C14", "C05"]           # the same entries in another order
        return ["C14"]
    return ["C04"]


# --------------------------------------------------------------------------- known findings

def load_known():
    known = []
    if os.path.exists(KNOWN):
        with open(KNOWN) as fh:
            for line in fh:
                line = line.strip()
                if line.startswith("known:"):
                    fields = dict(x.split("=", 1) for x in line[len("known:"):].split() if "=" in x)
                    text = " ".join(x for x in line[len("known:"):].split()
                                    if not x.startswith("property="))
                    known.append({"property": fields.get("property"), "sig": fields.get("sig"),
                                  "text": text})
    return known


class Findings:
    """violations of one property, separated into known findings and new violations"""

    def __init__(self, prop):
        self.prop = prop
        self.known = load_known()
        self.violations = []     # (signature, description, replay dict)
        self.known_hits = {}

    def add(self, sig, desc, replay):
        for k in self.known:
            if k["property"] == self.prop and k["sig"] == sig:
                self.known_hits.setdefault(sig, k["text"])
                return
        self.violations.append((sig, desc, replay))


def save_replay(prop, n, replay):
    os.makedirs(REPLAYS, exist_ok=True)
    path = os.path.join(REPLAYS, "%s-%d.json" % (prop, n))
    with open(path, "w") as fh:
        json.dump(replay, fh, indent=1)
    return path


def script_segments(script, lines):
    """for each wanted line (1-based): the operations from the last reset before it up to it;
    one pass over the script, JSON-decoding only what is returned"""
    want = set(lines)
    last = max(want) if want else 0
    out = {}
    seg = []
    with open(script) as fh:
        for i, raw in enumerate(fh, 1):
            if i > last:
                break
            if raw.startswith('{"reset"') or '"reset":true' in raw[:80]:
                seg = []
            else:
                seg.append(raw)
            if i in want:
                ops = []
                for x in seg:
                    try:
                        ops.append(json.loads(x))
                    except Exception:
                        pass            # a line cut short by the death of the process that wrote it
                out[i] = ops
    return out


def script_segment(script, line):
    return script_segments(script, [line]).get(line, [])


# --------------------------------------------------------------------------- per-property decision

CORE = ["C01", "C02", "C03", "C04", "C05", "C06", "C07", "C10", "C11", "C13", "C15", "C19", "C20"]

LEVELS = {p: "model_checking" for p in
          ["C01", "C02", "C03", "C04", "C05", "C06", "C07", "C10", "C11", "C12", "C13", "C14",
           "C15", "C16", "C17", "C19", "C20"]}
LEVELS.update({"C08": "exploration", "C09": "exploration", "C18": "other"})


def collect_core(prop, tier, fnd, cov):
    """model + replay + drive facets for one of the core properties"""
    model = stage_model(tier)
    cov["states"] = model["states"]
    cov["transitions"] = model["transitions"]
    cov["model"] = {"cfg": model["cfg"], "depth": model.get("depth"), "wall_s": model.get("wall_s"),
                    "action_coverage": model.get("coverage")}
    if not model["ok"]:
        errs = " ".join(model.get("errors", []))
        if "ShrinkProp" in errs or "ShrinkOK" in errs:
            if prop == "C13":
                fnd.add("shrink_raises_with_tombstones",
                        "bounded model: shrink raises capacity (design level)", {"kind": "model", "cfg": model["cfg"]})
        else:
            raise ToolError("the bounded model violates the specification's own properties "
                            "(specification defect, not a code defect):\n" +
                            model.get("output_tail", "")[-2500:])
    dump = core_dump(tier)
    cov["edges"] = dump["tour"]["edges"]
    cov["tour_steps"] = dump["tour"]["steps"]
    nt = dump["nontrivial"]
    rep = stage_replay(tier)
    nconf = 0
    executed = 0
    for c in rep["configs"]:
        nconf += 1
        if c["crashed"]:
            # the replayer died inside the code under test: a memory error (C07), or it was
            # stopped by its cpu / memory limit - only a cyclic list (C07) or drifting
            # accounting (C02: eviction loops that never reach their target) can do that
            oom = "memory allocation of" in (c.get("stderr") or "")
            stopped = c["returncode"] in (-9, -24) or oom
            if (prop == "C07" and not stopped) or (prop in ("C02", "C07") and stopped and not oom) \
                    or (prop == "C13" and oom):
                fnd.add("replayer_crash", "replayer process died (rc %s) under %s/%s: %s" %
                        (c["returncode"], c["hasher"], c["keyform"], c["stderr"][-300:]),
                        {"kind": "replay-crash", "script": rep["script"], "hasher": c["hasher"],
                         "keyform": c["keyform"]})
            continue
        executed += c["summary"]["executed"]
        mine = []
        sigs = set()
        for m in c["mismatches"]:
            sig = "replay:%s:%s" % (m["op"], m["facet"])
            if prop in replay_owners(m) and sig not in sigs:
                sigs.add(sig)
                mine.append(m)
        segs = script_segments(rep["script"], [m["line"] for m in mine[:8]])
        for m in mine[:8]:
            if True:
                seg = segs.get(m["line"], [])
                fnd.add("replay:%s:%s" % (m["op"], m["facet"]),
                        "replay %s/%s line %d op %s facet %s: expected %s, real cache gave %s" %
                        (c["hasher"], c["keyform"], m["line"], m["op"], m["facet"],
                         json.dumps(m["expected"])[:300], json.dumps(m["actual"])[:300]),
                        {"kind": "replay", "hasher": c["hasher"], "keyform": c["keyform"],
                         "universe": 3, "ops": seg, "facet": m["facet"], "expected": m["expected"],
                         "actual": m["actual"]})
    cov["replay_configurations"] = nconf
    cov["replayed_steps"] = executed
    shapes_into(prop, tier, fnd, cov)
    fulltable_into(prop, tier, fnd, cov)
    drv = stage_drive(tier)
    collect_drive(prop, drv, fnd, cov)
    if prop in ("C01", "C02"):
        # "after every public operation" / "at every point": also in the cache a leaked drain leaves
        # behind and in every later call on it (forget segments, shared with C17)
        import stages_ext
        idump = stage_dump(tier, module="MC_Iter.tla", base="MC_IterDump", name="dump-iter",
                           segments=(("forget", 1500 if tier == "quick" else 4000),))
        seg = stage_segments(tier, idump["forget"]["file"], "segments-forget", universe="4")
        stages_ext.segments_into(prop, seg, fnd, cov, sys.modules[__name__], "forget")
        # ... and the random histories in which a third of the iterators are leaked (the iterator
        # model has no limit below usize::MAX, these have): what stays with C01 / C02 in a
        # tainted segment is decided by the trace specification, everything else is C17's
        fplan = stages_ext.forget_plan(tier, int(os.environ.get("VERIF_SEED", "0")))
        collect_drive(prop, stage_drive(tier, name="drive-forget", plan=fplan), fnd, cov, crash_owner="C17")
    if prop == "C05":
        # the order in a cache made by clone / clone_from (two-cache tour, shared with C14)
        import stages_ext
        cdump = stages_ext.clone_dump(tier, sys.modules[__name__])
        stages_ext.replay_into(prop, stage_replay(tier, dump=cdump, name="replay-clone", universe="3"),
                               fnd, cov, sys.modules[__name__])
    if prop in ("C01", "C02", "C04", "C07"):
        scale_into(prop, tier, fnd, cov)
    if prop in ("C01", "C02"):
        apa = stage_apalache(tier)
        cov["apalache_inductive_invariant_LruCore"] = apa
        if any(v == "counterexample" for v in apa.values()):
            raise ToolError("Apalache refutes the inductive invariant of spec/LruCore.tla (specification "
                            "defect, not a code defect): %s" % apa)
    if prop == "C07":
        import stages_ext
        stages_ext.list_into(prop, tier, fnd, cov, sys.modules[__name__])
        asan_into(prop, stage_asan(tier, dump["script"]), fnd, cov, "replay")
    if prop == "C13":
        # tombstone arithmetic at design level: probe group width scaled down to 2
        base = stage_model(tier, base="MC_TombBase", name="model-tombbase")
        if not base["ok"]:
            raise ToolError("MC_TombBase violates the specification's own properties:\n" +
                            base.get("output_tail", "")[-2000:])
        cov["states"] += base["states"]
        cov["transitions"] += base["transitions"]
        tomb = stage_model(tier, base="MC_Tomb", name="model-tomb")
        cov["model_tomb"] = {"states": base["states"], "transitions": base["transitions"],
                             "shrink_never_raises_holds": tomb["ok"]}
        if not tomb["ok"]:
            if any("ShrinkProp" in e for e in tomb.get("errors", [])):
                fnd.add("shrink_raises_with_tombstones",
                        "MC_Tomb: the model of shrink_to raises capacity when tombstones exist",
                        {"kind": "model", "cfg": "MC_Tomb.cfg"})
            else:
                raise ToolError("MC_Tomb failed unexpectedly:\n" + tomb.get("output_tail", "")[-2000:])
    if prop == "C19":
        import stages_ext
        stages_ext.clone_crash_into(prop, tier, fnd, cov, sys.modules[__name__])
        roguard_into(prop, stage_roguard(tier, dump), fnd, cov)
        # clone / clone_from read their source through &self: the two-cache tour under the same guard
        # (faithful clone, and a key type whose Clone does not preserve equality)
        w0 = cov.get("readonly_windows", 0)
        roguard_into(prop, stage_roguard(tier, stages_ext.clone_dump(tier, sys.modules[__name__]),
                                         name="roguard-clone"), fnd, cov)
        cov["readonly_windows_clone_tour"] = cov.get("readonly_windows", 0)
        cov["readonly_windows"] = w0 + cov["readonly_windows_clone_tour"]
    if prop in ("C01", "C02", "C05", "C11", "C13"):
        # the bound / the sum of recorded sizes / the order of what remains / the atomicity of a
        # failing try_reserve must also hold around a caught panic or a refused allocation
        import stages_ext
        seg = stage_segments(tier, dump["crash"]["file"], "segments-crash", universe="3")
        stages_ext.segments_into(prop, seg, fnd, cov, sys.modules[__name__], "crash")
        stages_ext.clone_crash_into(prop, tier, fnd, cov, sys.modules[__name__])
        stages_ext.segments_into(prop, stage_bigcrash(tier), fnd, cov, sys.modules[__name__], "crash")
        seed = int(os.environ.get("VERIF_SEED", "0"))
        drvc = stage_drive(tier, name="drive-crash", plan=stages_ext.crash_plan(tier, seed))
        collect_drive(prop, drvc, fnd, cov, crash_owner="C16")
    cov["distinct_nontrivial"] = nt["counts"].get(prop, 0)
    cov["samples"] = nt["samples"].get(prop, [])[:3]
    if cov["distinct_nontrivial"] < 2:
        raise ToolError("vacuous: the bounded model never exercises %s non-trivially" % prop)
    return cov


def collect_drive(prop, drv, fnd, cov, key="traces_validated_against_impl", crash_owner="C07"):
    traces = 0
    events = 0
    maxlen = 0
    tomb = 0
    for r in drv["runs"]:
        v = r["validation"]
        if r.get("driver_crashed"):
            oom = "memory allocation of" in (r.get("stderr") or "")
            # running out of the (limited) address space is unbounded growth, not a memory error
            if (prop == crash_owner and not oom) or (prop == "C13" and oom):
                fnd.add("driver_crash", "driver process died (rc %s) for %s: %s" %
                        (r["driver_rc"], json.dumps(r["job"]), r.get("stderr", "")[-300:]),
                        {"kind": "drive", "job": r["job"]})
        if not v["ok"]:
            raise ToolError("TLC could not evaluate a trace (spec/trace format problem):\n" + v["tail"])
        traces += 1
        events += r["events"]
        if r.get("summary"):
            maxlen = max(maxlen, r["summary"].get("max_len", 0))
            tomb += r["summary"].get("tombstone_states", 0)
        for b in v["bad"]:
            for pr, facet in b["bad"]:
                if pr == prop:
                    seg = script_segment(r["script"], b["line"]) if os.path.exists(r["script"]) else []
                    fnd.add(facet if facet == "shrink_raises_with_tombstones" else "trace:%s:%s" % (b["op"], facet),
                            "trace %s line %d op %s: facet %s rejected by the specification" %
                            (json.dumps(r["job"]), b["line"], b["op"], facet),
                            {"kind": "trace", "job": r["job"], "ops": seg[-400:], "line": b["line"],
                             "facet": facet})
    cov[key] = cov.get(key, 0) + traces
    cov["trace_events"] = cov.get("trace_events", 0) + events
    cov["largest_cache_in_traces"] = max(cov.get("largest_cache_in_traces", 0), maxlen)
    cov["trace_states_with_tombstones"] = cov.get("trace_states_with_tombstones", 0) + tomb


def decide(prop, tier):
    t0 = time.time()
    os.environ["VERIF_TIER_EFFECTIVE"] = tier
    seed = int(os.environ.get("VERIF_SEED", "0"))
    fnd = Findings(prop)
    cov = {}
    assumptions = [
        "TLC 1.8 evaluates the specification correctly; fingerprint collisions are negligible",
        "the harness projection (public API + read-only cfg(lru_mem_verif) hook) reports the real state",
        "sizes stay below 2^30 so that size sums do not overflow usize",
    ]
    build_harness()
    if prop in CORE:
        collect_core(prop, tier, fnd, cov)
    else:
        import stages_ext
        stages_ext.collect(prop, tier, fnd, cov, sys.modules[__name__])
    # ---- report
    for sig, text in fnd.known_hits.items():
        print("KNOWN-FINDING: property=%s %s" % (prop, text))
    nviol = 0
    seen = set()
    for sig, desc, replay in fnd.violations:
        if sig in seen:
            continue
        seen.add(sig)
        nviol += 1
        if nviol > 5:
            continue
        path = save_replay(prop, nviol, dict(replay, property=prop, signature=sig, description=desc))
        print(desc[:600])
        print("VIOLATION property=%s replay=%s" % (prop, path))
    level = LEVELS[prop]
    cov.setdefault("states", 0)
    cov.setdefault("transitions", 0)
    cov.setdefault("traces_validated_against_impl", 0)
    cov.setdefault("samples", [])
    ev = {"property_id": prop, "tier": tier, "seed": seed, "level": level, "coverage": cov,
          "assumptions": assumptions, "wall_s": round(time.time() - t0, 2), "violations": nviol,
          "known_findings": sorted(fnd.known_hits)}
    if "evaluations" not in cov:
        cov["evaluations"] = cov.get("replayed_steps", 0) + cov.get("trace_events", 0)
    cov.setdefault("distinct_nontrivial", 0)
    cov.setdefault("rule", RULES.get(prop, ""))
    os.makedirs(EVIDENCE, exist_ok=True)
    with open(os.path.join(EVIDENCE, prop + ".json"), "w") as fh:
        json.dump(ev, fh, indent=1)
    return 1 if nviol else 0


RULES = {
    "C01": "every edge of the bounded model replayed under all configurations + every event of every validated trace; non-trivial = distinct (pre-state, op, args) whose post-state is within 8 bytes of the limit",
    "C02": "as C01; non-trivial = distinct (pre-state, op, args) that change current_size",
    "C03": "as C01; non-trivial = distinct (pre-state, op, args) that evict at least one entry",
    "C04": "as C01; non-trivial = distinct (pre-state, op, args) for lookups, insertions and removals",
    "C05": "as C01; non-trivial = distinct promoting calls on a cache with >= 2 entries",
    "C06": "as C01; non-trivial = distinct steps that drop or hand back at least one object",
    "C07": "as C01; non-trivial = distinct steps that replace the table (growth, reserve, shrink)",
    "C10": "as C01; non-trivial = distinct rejected insert/try_insert calls",
    "C11": "as C01; non-trivial = distinct mutate calls on a present key",
    "C13": "as C01; non-trivial = distinct capacity operations and growing insertions",
    "C12": "every edge of the iterator model (all words over next / next_back / nth(1,2) / nth_back(1,2) up to len+1, 7 kinds) replayed under all configurations + iterator runs inside random traces; non-trivial = distinct (recency order, kind, word)",
    "C14": "every edge of the two-cache model replayed + random traces with up to 4 live caches; non-trivial = distinct clone calls and distinct calls made while two caches are alive",
    "C16": "crash sweep: for sampled (state, op) edges of the bounded model and each callback kind, a panic at the n-th callback for n = 1.. until the op completes; plus random crash injection in long traces; non-trivial = injected panics that actually fired (each a distinct state/op/kind/n)",
    "C17": "every forget edge of the iterator model (state x kind x word) as its own segment followed by continued use and drop, validated by TLC; plus random traces forgetting 35% of iterators; non-trivial = distinct forget segments",
    "C15": "as C01; non-trivial = distinct retain calls (state x subset) on a non-empty cache",
    "C19": "as C01; non-trivial = distinct shared-reference calls on a non-empty cache",
    "C20": "as C01; non-trivial = distinct steps with departures or a table rebuild",
}


def do_replay(path):
    with open(path) as fh:
        rp = json.load(fh)
    build_harness()
    if rp.get("kind") in ("replay", "trace") and rp.get("ops"):
        d = os.path.join(CACHE, "replay-tmp")
        shutil.rmtree(d, ignore_errors=True)
        os.makedirs(d)
        script = os.path.join(d, "script.ndjson")
        with open(script, "w") as fh:
            for o in rp["ops"]:
                fh.write(json.dumps(o) + "\n")
            fh.write(json.dumps({"reset": True, "leak_ok": True}) + "\n")
        job = rp.get("job") or {}
        hasher = rp.get("hasher") or job.get("hasher", "default")
        keyform = rp.get("keyform") or job.get("keyform", "owned")
        universe = str(rp.get("universe") or 16)
        events = os.path.join(d, "events.ndjson")
        mm = os.path.join(d, "mm.ndjson")
        extra = ["--roguard", os.path.join(d, "rog")] if rp.get("facet") == "roguard" else []
        binary = os.path.join(BIN, "run")
        if rp.get("shape"):
            stage_shapes(os.environ.get("VERIF_TIER", "quick"))
            binary = os.path.join(SHAPE_BIN, "run-" + rp["shape"])
        p = run([binary, "--script", script, "--hasher", hasher, "--keyform", keyform,
                 "--universe", universe, "--events", events, "--compare", "--mismatches", mm] + extra, 600,
                ok_codes=None)
        print("run exit", p.returncode, p.stdout[-600:])
        if os.path.exists(mm):
            print(open(mm).read()[:3000])
        if rp.get("shape"):
            # synthesized drops of untracked objects are not part of the trace format
            return 1 if (os.path.getsize(mm) > 0 or p.returncode != 0) else 0
        w = spec_workdir(d)
        v = validate_trace(w, events)
        print(json.dumps(v["bad"])[:3000])
        bad = bool(v["bad"]) or os.path.getsize(mm) > 0 or p.returncode != 0
        return 1 if bad else 0
    print("nothing to replay in", path)
    return 2


def main():
    args = sys.argv[1:]
    if not args:
        print(__doc__)
        return 2
    tier = os.environ.get("VERIF_TIER", "quick")
    if "--tier" in args:
        tier = args[args.index("--tier") + 1]
    sys.path.insert(0, os.path.join(ROOT, "tools"))
    try:
        if args[0] == "setup":
            build_harness()
            import stages_ext
            return stages_ext.selftest(sys.modules[__name__])
        if args[0] == "replay":
            return do_replay(args[1])
        return decide(args[0], tier)
    except ToolError as e:
        print("TOOL-ERROR:", str(e)[:4000], file=sys.stderr)
        return 2
    except Exception:
        import traceback
        print("TOOL-ERROR: internal error of the checker\n" + traceback.format_exc()[-3000:], file=sys.stderr)
        return 2


if __name__ == "__main__":
    sys.exit(main())
