//! Counting global allocator with an armable refusal switch.

use std::alloc::{GlobalAlloc, Layout, System};
use std::cell::Cell;
use std::sync::atomic::{AtomicUsize, Ordering};

pub struct CountingAlloc;

thread_local! {
    /// While > 0 every allocation request of at least this many bytes made by
    /// this thread is refused (returns null).
    static REFUSE_FROM: Cell<usize> = const { Cell::new(0) };
    static REFUSED: Cell<usize> = const { Cell::new(0) };
    /// While > 0: countdown; the allocation request that brings it to 0 is refused
    /// (exactly one refusal), whatever its size.
    static REFUSE_NTH: Cell<usize> = const { Cell::new(0) };
    /// Live bytes allocated by this thread while tracking is on.
    static TRACK: Cell<bool> = const { Cell::new(false) };
    static LIVE: Cell<isize> = const { Cell::new(0) };
}

pub static TOTAL_ALLOCS: AtomicUsize = AtomicUsize::new(0);

unsafe impl GlobalAlloc for CountingAlloc {
    unsafe fn alloc(&self, layout: Layout) -> *mut u8 {
        let refuse = REFUSE_FROM.try_with(|r| r.get()).unwrap_or(0);

        if refuse > 0 && layout.size() >= refuse {
            let _ = REFUSED.try_with(|r| r.set(r.get() + 1));
            return std::ptr::null_mut();
        }

        let nth = REFUSE_NTH.try_with(|r| {
            let n = r.get();
            if n > 0 { r.set(n - 1); }
            n
        }).unwrap_or(0);

        if nth == 1 {
            let _ = REFUSED.try_with(|r| r.set(r.get() + 1));
            return std::ptr::null_mut();
        }

        TOTAL_ALLOCS.fetch_add(1, Ordering::Relaxed);
        let p = System.alloc(layout);

        if !p.is_null() {
            let _ = TRACK.try_with(|t| {
                if t.get() {
                    let _ = LIVE.try_with(|l| l.set(l.get() + layout.size() as isize));
                }
            });
        }

        p
    }

    unsafe fn dealloc(&self, ptr: *mut u8, layout: Layout) {
        let _ = TRACK.try_with(|t| {
            if t.get() {
                let _ = LIVE.try_with(|l| l.set(l.get() - layout.size() as isize));
            }
        });
        System.dealloc(ptr, layout)
    }

    unsafe fn realloc(&self, ptr: *mut u8, layout: Layout, new_size: usize) -> *mut u8 {
        let refuse = REFUSE_FROM.try_with(|r| r.get()).unwrap_or(0);

        if refuse > 0 && new_size >= refuse {
            let _ = REFUSED.try_with(|r| r.set(r.get() + 1));
            return std::ptr::null_mut();
        }

        let p = System.realloc(ptr, layout, new_size);

        if !p.is_null() {
            let _ = TRACK.try_with(|t| {
                if t.get() {
                    let _ = LIVE.try_with(|l| {
                        l.set(l.get() + new_size as isize - layout.size() as isize)
                    });
                }
            });
        }

        p
    }
}

/// Refuse every allocation of at least `min_bytes` bytes on this thread until
/// [allow_all] is called.
pub fn refuse_from(min_bytes: usize) {
    REFUSE_FROM.with(|r| r.set(min_bytes.max(1)));
    REFUSED.with(|r| r.set(0));
}

/// Refuse exactly the n-th (1-based) allocation request of this thread from now.
pub fn refuse_nth(n: usize) {
    REFUSE_NTH.with(|r| r.set(n));
    REFUSED.with(|r| r.set(0));
}

/// Lifts [refuse_from] / [refuse_nth] and returns how many requests were refused.
pub fn allow_all() -> usize {
    REFUSE_FROM.with(|r| r.set(0));
    REFUSE_NTH.with(|r| r.set(0));
    REFUSED.with(|r| r.get())
}

/// Starts attributing allocations of this thread to a fresh live-bytes counter.
pub fn track_start() {
    LIVE.with(|l| l.set(0));
    TRACK.with(|t| t.set(true));
}

/// Live bytes allocated since [track_start] and not freed.
pub fn track_live() -> isize {
    LIVE.with(|l| l.get())
}

pub fn track_stop() {
    TRACK.with(|t| t.set(false));
}
