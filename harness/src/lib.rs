//! Conformance harness for lru-mem: instrumented key/value types, a token
//! registry, adversarial hashers, an executor that performs one abstract
//! operation of the TLA+ specification on the real `LruCache`, and a
//! projector that turns the real cache into the specification's state shape.
//!
//! There is deliberately no oracle logic in here: expected results come from
//! TLC (replay) or are decided by TLC (trace validation). The only "logic" is
//! the generic resolution of object tokens into identity markers relative to
//! the state logged after the previous step.

pub mod alloc;
pub mod exec;
pub mod types;

pub use exec::*;
pub use types::*;
