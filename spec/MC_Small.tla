------------------------------ MODULE MC_Small ------------------------------
(* Bounded instance: 3 key ids, sizes and limits placed on every exact-fit *)
(* and one-over boundary of one to three entries.  OVERHEAD is substituted  *)
(* by tools/check.py with the value measured from the real entry_size.     *)
EXTENDS LruMemModel

O == Overhead
MCKeys    == 1..3
MCKHeaps  == {0, 2}
MCVSizes  == {0, 1, 3}
MCLimits  == {0, O, O + 1, 2 * O, 2 * O + 1, 2 * O + 3, 3 * O + 4, UMAX - 2, UMAX}
            \* UMAX - 2: a limit closer to usize::MAX than the size changes in play (sums such as
            \* max_size + old - new wrap around)
MCInitCaps == {0, 3}
MCAddl    == {0, 1, 4, UMAX, -1000000}   \* the last passes len + n, fails inside the table
MCOps == {"insert", "try_insert", "get", "get_entry", "get_lru", "touch", "peek",
          "peek_entry", "peek_lru", "peek_mru", "contains", "remove", "remove_entry",
          "remove_lru", "remove_mru", "mutate", "set_max_size", "retain", "clear",
          "reserve", "try_reserve", "shrink_to", "shrink_to_fit", "len", "is_empty",
          "current_size", "max_size", "capacity", "debug", "hasher", "new", "drop"}

(* MC_Tomb: probe group width scaled down to 2, so that tombstones (which  *)
(* native tables only have from 32 buckets) exist in 4- and 8-bucket tables *)
TKHeaps == {0}
TVSizes == {0}
TLimits == {UMAX}
TAddl   == {0, 2, 3}
TOps    == {"insert", "get", "remove", "remove_lru", "reserve", "shrink_to", "shrink_to_fit",
            "clear", "new", "drop"}

(* quick tier: halved constants *)
QLimits   == {0, O + 1, 2 * O + 3, UMAX}
QVSizes   == {0, 3}
QAddl     == {0, 4, UMAX, -1000000}
=============================================================================
