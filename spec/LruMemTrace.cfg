SPECIFICATION TraceSpec
CONSTANTS
  Overhead = 56
  GroupWidth = 16
INVARIANT Done
CHECK_DEADLOCK FALSE
