SPECIFICATION Spec
CONSTANTS
  Overhead = 56
  GroupWidth = 2
  CacheIds = {1}
  Keys <- MCKeys
  KHeaps <- TKHeaps
  VSizes <- TVSizes
  Limits <- TLimits
  InitCaps <- MCInitCaps
  Addl <- TAddl
  Ops <- TOps
  MaxWord = 0
  Letters = {"n", "b"}
PROPERTY ShrinkProp
VIEW CheckView
CHECK_DEADLOCK FALSE
