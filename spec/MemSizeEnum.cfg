SPECIFICATION EnumSpec
CONSTANT Depth = 2
CHECK_DEADLOCK FALSE
