------------------------------- MODULE LruMem -------------------------------
(***************************************************************************)
(* Abstract sequential machine of the `lru-mem` crate (LruCache<K, V, S>). *)
(*                                                                         *)
(* One cache is a record                                                   *)
(*    [alive, ord, cur, max, b, t]                                         *)
(* where `ord` is the recency list (least-recently-used FIRST) of entry    *)
(* records [k, kh, vs, rec]: key id, heap size of the stored key object,   *)
(* current heap size of the stored value, and the size RECORDED for the    *)
(* entry (Entry.size).  `cur`/`max` are current_size/max_size, `b` is the  *)
(* number of buckets of the hashbrown table and `t` its tombstones, so     *)
(* that capacity() = FullCap(b) - t.                                       *)
(*                                                                         *)
(* Every public call is one pure operator  ApplyX(s, args)  returning the  *)
(* SET of outcomes the specification allows (the only nondeterminism is    *)
(* hashbrown's tombstone placement, which depends on hash values the spec  *)
(* deliberately does not model).  The same operators are used by           *)
(*   - Next (bounded model checking, MC_*.tla),                            *)
(*   - the edge dump that generates replay tests (MC_Dump),                *)
(*   - trace validation of the real code (LruMemTrace.tla).                *)
(*                                                                         *)
(* usize values are TLC integers read as two's complement: v >= 0 is v,    *)
(* v < 0 is usize::MAX + 1 + v (so -1 is usize::MAX).  Only values within  *)
(* 2^30 of either end occur.                                               *)
(***************************************************************************)
EXTENDS Integers, Sequences, FiniteSets, TLC

CONSTANTS Overhead,     \* size_of::<Entry<K, V>>(): entry_size of a pair without heap
          GroupWidth    \* hashbrown probe group width (16 with SSE2)

-----------------------------------------------------------------------------
(* usize arithmetic *)

UMAX       == -1
ULeq(a, b) == IF (a >= 0) <=> (b >= 0) THEN a <= b ELSE a >= 0
UGt(a, b)  == ~ULeq(a, b)
IsBig(a)   == a < 0
Max2(a, b) == IF a >= b THEN a ELSE b
Min2(a, b) == IF a <= b THEN a ELSE b
UMax2(a, b) == IF ULeq(a, b) THEN b ELSE a

-----------------------------------------------------------------------------
(* hashbrown 0.14 raw table geometry (raw/mod.rs capacity_to_buckets,      *)
(* bucket_mask_to_capacity), transcribed.  b = 0 is the unallocated table. *)

RECURSIVE NextPow2From(_, _)
NextPow2From(p, n) == IF p >= n THEN p ELSE NextPow2From(2 * p, n)

CapToBuckets(c) == IF c = 0 THEN 0
                   ELSE IF c < 8 THEN (IF c < 4 THEN 4 ELSE 8)
                   ELSE NextPow2From(1, (c * 8) \div 7)

FullCap(b) == IF b = 0 THEN 0 ELSE IF b <= 8 THEN b - 1 ELSE (b \div 8) * 7

Cap(s) == FullCap(s.b) - s.t

-----------------------------------------------------------------------------
(* entries, caches *)

Ent(k, kh, vs, rec) == [k |-> k, kh |-> kh, vs |-> vs, rec |-> rec]

Dead == [alive |-> FALSE, ord |-> <<>>, cur |-> 0, max |-> 0, b |-> 0, t |-> 0]

NewCache(max, cap) ==
    [alive |-> TRUE, ord |-> <<>>, cur |-> 0, max |-> max,
     b |-> CapToBuckets(cap), t |-> 0]

KeysOf(o) == {o[i].k : i \in DOMAIN o}
KeySeq(o) == [i \in DOMAIN o |-> o[i].k]
Pos(o, k) == IF \E i \in DOMAIN o : o[i].k = k
             THEN CHOOSE i \in DOMAIN o : o[i].k = k ELSE 0
DropAt(o, i)  == SubSeq(o, 1, i - 1) \o SubSeq(o, i + 1, Len(o))
TakeN(o, n)   == SubSeq(o, 1, n)
DropN(o, n)   == SubSeq(o, n + 1, Len(o))
NoDup(o)      == \A i, j \in DOMAIN o : o[i].k = o[j].k => i = j

RECURSIVE SumRec(_)
SumRec(o) == IF o = <<>> THEN 0 ELSE Head(o).rec + SumRec(Tail(o))

(* eject_to_target: how many LRU-first entries leave until total <= target *)
RECURSIVE EvictN(_, _, _)
EvictN(o, total, target) ==
    IF o # <<>> /\ UGt(total, target)
    THEN 1 + EvictN(Tail(o), total - Head(o).rec, target)
    ELSE 0

-----------------------------------------------------------------------------
(* identity markers: which OBJECT is meant, relative to the state before   *)
(* the call.  <<"K", k>> / <<"V", k>>: the key / value object stored under *)
(* key id k before the call; AK / AV: the objects passed to the call;      *)
(* RM: the closure's result; NoM: nothing.                                 *)

NoM   == <<"-", 0>>
MK(k) == <<"K", k>>
MV(k) == <<"V", k>>
AK    == <<"AK", 0>>
AV    == <<"AV", 0>>
RM    == <<"R", 0>>

MarkersOf(o) == UNION {{MK(o[i].k), MV(o[i].k)} : i \in DOMAIN o}

(* uniform return record.  tag: variant; a, b, c: numeric payload;         *)
(* key, val: identity of returned objects; d: heap size of the returned    *)
(* value object; seq: sequence payload (visit order, yields).              *)
Ret(tag, a, b, c, key, val, d, seq) ==
    [tag |-> tag, a |-> a, b |-> b, c |-> c, key |-> key, val |-> val,
     d |-> d, seq |-> seq]
RTag(tag)    == Ret(tag, 0, 0, 0, NoM, NoM, 0, <<>>)
RInt(n)      == Ret("int", n, 0, 0, NoM, NoM, 0, <<>>)
RNone        == RTag("None")
RSomeV(e)    == Ret("Some", 0, 0, 0, NoM, MV(e.k), e.vs, <<>>)
RSomeKV(e)   == Ret("Some", 0, 0, 0, MK(e.k), MV(e.k), e.vs, <<>>)

(* One outcome of a call.                                                   *)
(*  s       cache afterwards                                                *)
(*  ret     what the call returned                                          *)
(*  ev      entries EVICTED (left without being asked for), oldest first    *)
(*  dropped objects dropped by the cache during the call                    *)
(*  fresh   key id whose entry afterwards consists of the passed objects    *)
(*  hashmax upper bound on Hash::hash invocations (C20)                     *)
(*  grew    the call grew the table automatically                           *)
(*  rebuilt the call rebuilt the table                                      *)
(*  handed  objects whose ownership the call passed to the caller          *)
(*  leaked  objects the call abandoned without dropping (forgotten iterator)*)
Outcome(s, ret, ev, dr, fresh, hm, grew, reb) ==
    [s |-> s, ret |-> ret, ev |-> ev, dropped |-> dr, fresh |-> fresh,
     hashmax |-> hm, grew |-> grew, rebuilt |-> reb, handed |-> {}, leaked |-> {}]

Same(s, ret, hm) == {Outcome(s, ret, <<>>, {}, 0, hm, FALSE, FALSE)}

-----------------------------------------------------------------------------
(* tombstones (hashbrown erase): removing an entry leaves a tombstone only *)
(* if it sits in a run of >= GroupWidth non-empty control bytes, which     *)
(* needs more than GroupWidth buckets and that many non-empty ones.        *)

TombAfter(s, removed) ==
    IF removed > 0 /\ s.b >= 2 * GroupWidth /\ Len(s.ord) + s.t >= GroupWidth
    THEN s.t .. (s.t + removed) ELSE {s.t}

(* where a fresh entry goes: re-use a tombstone | use an empty slot | grow *)
(* (insert_unchecked: reallocate(max(2 * capacity, 1)) when refused)       *)
InsertSlot(b, t, len) ==
    LET cap == FullCap(b) - t IN
    (IF t > 0 THEN {[b |-> b, t |-> t - 1, grew |-> FALSE]} ELSE {})
    \cup (IF cap - len > 0
          THEN {[b |-> b, t |-> t, grew |-> FALSE]}
          ELSE {[b |-> CapToBuckets(Max2(2 * cap, 1)), t |-> 0, grew |-> TRUE]})

-----------------------------------------------------------------------------
(* the operations *)

(* lib.rs insert: prepare | dedupe | eject to max - size | link (maybe grow) *)
ApplyInsert(s, k, kh, vs) ==
    LET es == kh + vs + Overhead IN
    IF UGt(es, s.max)
    THEN Same(s, Ret("EntryTooLarge", es, s.max, 0, AK, AV, vs, <<>>), 2)
    ELSE
    LET i   == Pos(s.ord, k)
        had == i > 0
        o1  == IF had THEN DropAt(s.ord, i) ELSE s.ord
        c1  == IF had THEN s.cur - s.ord[i].rec ELSE s.cur
        n   == EvictN(o1, c1, s.max - es)
        ev  == TakeN(o1, n)
        o2  == DropN(o1, n)
        c2  == c1 - SumRec(ev)
        removed == n + (IF had THEN 1 ELSE 0)
        ret == IF had THEN Ret("OkSome", 0, 0, 0, NoM, MV(k), s.ord[i].vs, <<>>)
                      ELSE RTag("OkNone")
        dr  == MarkersOf(ev) \cup (IF had THEN {MK(k)} ELSE {})
    IN { Outcome([s EXCEPT !.ord = Append(o2, Ent(k, kh, vs, es)),
                           !.cur = c2 + es, !.b = sl.b, !.t = sl.t],
                 ret, ev, dr, k,
                 2 + removed + (IF sl.grew THEN Len(o2) ELSE 0), sl.grew, sl.grew)
         : sl \in UNION {InsertSlot(s.b, t1, Len(o2)) : t1 \in TombAfter(s, removed)} }

(* lib.rs try_insert: too large | would eject | occupied | link *)
ApplyTryInsert(s, k, kh, vs) ==
    LET es   == kh + vs + Overhead
        free == s.max - s.cur
    IN
    IF UGt(es, s.max)
    THEN Same(s, Ret("EntryTooLarge", es, s.max, 0, AK, AV, vs, <<>>), 2)
    ELSE IF UGt(es, free)
    THEN Same(s, Ret("WouldEjectLru", es, free, 0, AK, AV, vs, <<>>), 2)
    ELSE IF Pos(s.ord, k) > 0
    THEN Same(s, Ret("OccupiedEntry", 0, 0, 0, AK, AV, vs, <<>>), 2)
    ELSE { Outcome([s EXCEPT !.ord = Append(s.ord, Ent(k, kh, vs, es)),
                             !.cur = s.cur + es, !.b = sl.b, !.t = sl.t],
                   RTag("Ok"), <<>>, {}, k,
                   2 + (IF sl.grew THEN Len(s.ord) ELSE 0), sl.grew, sl.grew)
           : sl \in InsertSlot(s.b, s.t, Len(s.ord)) }

Promote(s, i) == [s EXCEPT !.ord = Append(DropAt(s.ord, i), s.ord[i])]

(* get / get_entry / touch: promote if present *)
ApplyGet(s, k, form) ==
    LET i == Pos(s.ord, k) IN
    IF i = 0 THEN Same(s, IF form = "touch" THEN RTag("unit") ELSE RNone, 2)
    ELSE Same(Promote(s, i),
              CASE form = "get"       -> RSomeV(s.ord[i])
                [] form = "get_entry" -> RSomeKV(s.ord[i])
                [] OTHER              -> RTag("unit"), 2)

ApplyGetLru(s) ==
    IF s.ord = <<>> THEN Same(s, RNone, 2)
    ELSE Same(Promote(s, 1), RSomeKV(s.ord[1]), 2)

(* peek / peek_entry / contains: nothing changes *)
ApplyPeek(s, k, form) ==
    LET i == Pos(s.ord, k) IN
    IF form = "contains"
    THEN Same(s, RTag(IF i > 0 THEN "true" ELSE "false"), 2)
    ELSE IF i = 0 THEN Same(s, RNone, 2)
    ELSE Same(s, IF form = "peek" THEN RSomeV(s.ord[i]) ELSE RSomeKV(s.ord[i]), 2)

ApplyPeekEnd(s, lru) ==
    IF s.ord = <<>> THEN Same(s, RNone, 0)
    ELSE Same(s, RSomeKV(IF lru THEN s.ord[1] ELSE s.ord[Len(s.ord)]), 0)

(* remove / remove_entry / remove_lru / remove_mru *)
RemoveAtIdx(s, i, ret) ==
    { Outcome([s EXCEPT !.ord = DropAt(s.ord, i), !.cur = s.cur - s.ord[i].rec,
                        !.t = t1],
              ret, <<>>, {}, 0, 3, FALSE, FALSE)
      : t1 \in TombAfter(s, 1) }

ApplyRemove(s, k, form) ==
    LET i == Pos(s.ord, k) IN
    IF i = 0 THEN Same(s, RNone, 2)
    ELSE RemoveAtIdx(s, i, IF form = "remove" THEN RSomeV(s.ord[i])
                                               ELSE RSomeKV(s.ord[i]))
    \* `remove` drops the stored key; that is visible as a dropped object
ApplyRemoveFix(s, k, form) ==
    { IF form = "remove" /\ o.ret.tag = "Some"
      THEN [o EXCEPT !.dropped = {MK(k)}] ELSE o : o \in ApplyRemove(s, k, form) }

ApplyRemoveEnd(s, lru) ==
    IF s.ord = <<>> THEN Same(s, RNone, 2)
    ELSE LET i == IF lru THEN 1 ELSE Len(s.ord) IN RemoveAtIdx(s, i, RSomeKV(s.ord[i]))

(* mutate(k, f) where f sets the value's heap size to nvs.  The closure    *)
(* runs iff the key is present (ret.seq = <<k>>).  Afterwards the entry is  *)
(* measured anew (key heap + value heap + Overhead) and compared with the   *)
(* size RECORDED for it - not with a value size measured before the call:   *)
(* after a panic inside an earlier mutate of this entry the record may lag  *)
(* behind the value, and this call brings it up to date again.              *)
ApplyMutate(s, k, nvs) ==
    LET i == Pos(s.ord, k) IN
    IF i = 0 THEN Same(s, RTag("OkNone"), 2)
    ELSE
    LET e   == s.ord[i]
        nes == e.kh + nvs + Overhead
    IN
    IF nes > e.rec
    THEN LET diff == nes - e.rec
         IN IF UGt(nes, s.max)
            THEN { Outcome([s EXCEPT !.ord = DropAt(s.ord, i), !.cur = s.cur - e.rec,
                                     !.t = t1],
                           Ret("EntryTooLarge", e.rec, nes, s.max, MK(k), MV(k), nvs, <<k>>),
                           <<>>, {}, 0, 3, FALSE, FALSE)
                   : t1 \in TombAfter(s, 1) }
            ELSE LET o1 == Append(DropAt(s.ord, i), [e EXCEPT !.vs = nvs, !.rec = nes])
                     c1 == s.cur + diff
                     n  == EvictN(o1, c1, s.max)
                     ev == TakeN(o1, n)
                 IN { Outcome([s EXCEPT !.ord = DropN(o1, n), !.cur = c1 - SumRec(ev),
                                        !.t = t1],
                              Ret("OkSome", 0, 0, 0, NoM, RM, 0, <<k>>),
                              ev, MarkersOf(ev), 0, 2 + n, FALSE, FALSE)
                      : t1 \in TombAfter(s, n) }
    ELSE LET diff == e.rec - nes
             o1   == Append(DropAt(s.ord, i), [e EXCEPT !.vs = nvs, !.rec = nes])
         IN Same([s EXCEPT !.ord = o1, !.cur = s.cur - diff],
                 Ret("OkSome", 0, 0, 0, NoM, RM, 0, <<k>>), 2)

(* set_max_size: eject to the new limit, then store it *)
ApplySetMax(s, m) ==
    LET n  == EvictN(s.ord, s.cur, m)
        ev == TakeN(s.ord, n)
    IN { Outcome([s EXCEPT !.ord = DropN(s.ord, n), !.cur = s.cur - SumRec(ev),
                           !.max = m, !.t = t1],
                 RTag("unit"), ev, MarkersOf(ev), 0, 2 + n, FALSE, FALSE)
         : t1 \in TombAfter(s, n) }

(* retain(pred) where pred(k, v) = (k \in keep).  ret.seq is the sequence  *)
(* of keys the predicate is called with.                                   *)
ApplyRetain(s, keep) ==
    LET kept == SelectSeq(s.ord, LAMBDA e : e.k \in keep)
        gone == SelectSeq(s.ord, LAMBDA e : e.k \notin keep)
    IN { Outcome([s EXCEPT !.ord = kept, !.cur = s.cur - SumRec(gone), !.t = t1],
                 Ret("unit", 0, 0, 0, NoM, NoM, 0, KeySeq(s.ord)),
                 <<>>, MarkersOf(gone), 0, 2 + Len(gone), FALSE, FALSE)
         : t1 \in TombAfter(s, Len(gone)) }

ApplyClear(s) ==
    {Outcome([s EXCEPT !.ord = <<>>, !.cur = 0, !.t = 0],
             RTag("unit"), <<>>, MarkersOf(s.ord), 0, 0, FALSE, FALSE)}

(* try_reallocate(n): fresh table for n entries, every entry re-hashed once *)
Realloc(s, n, ret) ==
    {Outcome([s EXCEPT !.b = CapToBuckets(n), !.t = 0], ret, <<>>, {}, 0,
             2 + Len(s.ord), FALSE, TRUE)}

(* reserve panics on overflow (documented); nothing may change then.  All   *)
(* capacity operations may hash every held entry once, whether or not they  *)
(* end up replacing the table (C20 bounds them by operation, not outcome).  *)
ApplyReserve(s, n) ==
    IF IsBig(n) THEN Same(s, RTag("panic"), 2 + Len(s.ord))
    ELSE IF Cap(s) < Len(s.ord) + n THEN Realloc(s, Len(s.ord) + n, RTag("unit"))
    ELSE Same(s, RTag("unit"), 2 + Len(s.ord))

(* fail: the allocator refuses every allocation attempted during the call.  *)
(* A request that cannot be represented fails with CapacityOverflow; if the *)
(* allocator refuses as well, either error may be reported (C13 only        *)
(* demands that a failing try_reserve changes nothing).                     *)
ApplyTryReserve(s, n, fail) ==
    IF IsBig(n)
    THEN Same(s, RTag("CapacityOverflow"), 2 + Len(s.ord))
         \cup (IF fail THEN Same(s, RTag("AllocError"), 2 + Len(s.ord)) ELSE {})
    ELSE IF Cap(s) < Len(s.ord) + n
    THEN (IF fail THEN Same(s, RTag("AllocError"), 2 + Len(s.ord))
                  ELSE Realloc(s, Len(s.ord) + n, RTag("Ok")))
    ELSE Same(s, RTag("Ok"), 2 + Len(s.ord))

ApplyShrinkTo(s, n) ==
    LET nc == UMax2(Len(s.ord), n) IN
    IF UGt(Cap(s), nc) THEN Realloc(s, nc, RTag("unit"))
    ELSE Same(s, RTag("unit"), 2 + Len(s.ord))

ApplyScalar(s, what) ==
    Same(s, CASE what = "len"          -> RInt(Len(s.ord))
              [] what = "is_empty"     -> RTag(IF s.ord = <<>> THEN "true" ELSE "false")
              [] what = "current_size" -> RInt(s.cur)
              [] what = "max_size"     -> RInt(s.max)
              [] what = "capacity"     -> RInt(Cap(s))
              [] what = "debug"        -> Ret("unit", 0, 0, 0, NoM, NoM, 0, KeySeq(s.ord))
              \* hasher(): a reference to the very hash builder the cache was created
              \* with (a clone: to the clone of its source's), i.e. one that hashes like it
              [] what = "hasher"       -> RTag("own"),
         IF what \in {"debug", "hasher"} THEN 0 ELSE 2)

-----------------------------------------------------------------------------
(* iterators.  A run is: open an iterator of `kind`, perform the word w,   *)
(* then drop or forget it.  The letters of a word are the calls             *)
(*    "n"  next()          "b"  next_back()                                 *)
(*    "sJ" nth(J)          "rJ" nth_back(J)        (J = 1, 2)               *)
(* nth(J) is what the Iterator contract says: J + 1 entries are consumed    *)
(* from that end, the last of them is returned and the J before it are      *)
(* SKIPPED (an owning iterator or drain drops them); when fewer than J + 1  *)
(* remain, all of them are consumed and the call returns None.  skip(),     *)
(* step_by() and rev() of the standard library are built from these calls.  *)
(* While a borrowing iterator or a drain lives the cache is borrowed, and   *)
(* owning iterators consume it, so for safe programs the run is atomic.     *)
(* ret.seq lists what each call yielded: a key id, or 0 for None.           *)

FrontLetters == {"n", "s1", "s2"}
BackLetters  == {"b", "r1", "r2"}
IterLetters  == FrontLetters \cup BackLetters
SkipOf(t)    == CASE t \in {"s1", "r1"} -> 1 [] t \in {"s2", "r2"} -> 2 [] OTHER -> 0

RECURSIVE IterYields(_, _)
IterYields(rem, w) ==
    IF w = <<>> THEN <<>>
    ELSE LET j == SkipOf(Head(w)) IN
         IF Len(rem) <= j THEN <<0>> \o IterYields(<<>>, Tail(w))
         ELSE IF Head(w) \in FrontLetters
         THEN <<rem[j + 1].k>> \o IterYields(DropN(rem, j + 1), Tail(w))
         ELSE <<rem[Len(rem) - j].k>> \o IterYields(TakeN(rem, Len(rem) - j - 1), Tail(w))

(* what the iterator has not consumed after the word *)
RECURSIVE IterRest(_, _)
IterRest(rem, w) ==
    IF w = <<>> \/ rem = <<>> THEN rem
    ELSE LET j == SkipOf(Head(w)) IN
         IF Len(rem) <= j THEN <<>>
         ELSE IF Head(w) \in FrontLetters THEN IterRest(DropN(rem, j + 1), Tail(w))
         ELSE IterRest(TakeN(rem, Len(rem) - j - 1), Tail(w))

BorrowingKinds == {"iter", "keys", "values"}
OwningKinds    == {"into_iter", "into_keys", "into_values"}
IterKinds      == BorrowingKinds \cup {"drain"} \cup OwningKinds

(* objects an owning iterator of this kind hands to the caller / drops     *)
(* itself when it yields entry e                                           *)
YieldDrops(kind, e) == CASE kind = "into_keys"   -> {MV(e.k)}
                         [] kind = "into_values" -> {MK(e.k)}
                         [] OTHER                -> {}

ApplyIter(s, kind, w, forget) ==
    LET ys    == IterYields(s.ord, w)
        rest  == IterRest(s.ord, w)
        taken == SelectSeq(s.ord, LAMBDA e : \E j \in DOMAIN ys : ys[j] = e.k)
        \* consumed by an nth / nth_back without being yielded: dropped by that call
        skipd == SelectSeq(s.ord, LAMBDA e : e.k \notin KeysOf(taken) \cup KeysOf(rest))
        ret   == Ret(IF forget THEN "forgot" ELSE "dropped", 0, 0, 0, NoM, NoM, 0, ys)
        ydrop == UNION {YieldDrops(kind, taken[j]) : j \in DOMAIN taken}
        yhand == MarkersOf(taken) \ ydrop
        lk    == IF forget THEN MarkersOf(rest) ELSE {}
        rdrop == MarkersOf(skipd) \cup (IF forget THEN {} ELSE MarkersOf(rest))
    IN
    IF kind \in BorrowingKinds THEN Same(s, ret, 0)
    ELSE IF kind = "drain"
    THEN \* the cache is emptied, its table kept; a forgotten drain leaks
         \* what it did not yield (leaked objects are not `dropped`)
         {[Outcome([s EXCEPT !.ord = <<>>, !.cur = 0, !.t = 0], ret, <<>>,
                   rdrop, 0, 0, FALSE, FALSE)
           EXCEPT !.handed = yhand, !.leaked = lk]}
    ELSE {[Outcome(Dead, ret, <<>>, ydrop \cup rdrop, 0, 0, FALSE, FALSE)
           EXCEPT !.handed = yhand, !.leaked = lk]}

-----------------------------------------------------------------------------
(* clone: same entries, order, sizes; table sized for the source capacity  *)
CloneOf(s) == [s EXCEPT !.b = CapToBuckets(Cap(s)), !.t = 0]

-----------------------------------------------------------------------------
(* operation descriptors and dispatch.  An operation is a record           *)
(*   [op, k, kh, vs, n, keep, w, fl]                                       *)

OpRec(op, k, kh, vs, n, keep, w, fl) ==
    [op |-> op, k |-> k, kh |-> kh, vs |-> vs, n |-> n, keep |-> keep, w |-> w, fl |-> fl]

Apply0(s, a) ==
    CASE a.op = "insert"        -> ApplyInsert(s, a.k, a.kh, a.vs)
      [] a.op = "try_insert"    -> ApplyTryInsert(s, a.k, a.kh, a.vs)
      [] a.op \in {"get", "get_entry", "touch"} -> ApplyGet(s, a.k, a.op)
      [] a.op = "get_lru"       -> ApplyGetLru(s)
      [] a.op \in {"peek", "peek_entry", "contains"} -> ApplyPeek(s, a.k, a.op)
      [] a.op = "peek_lru"      -> ApplyPeekEnd(s, TRUE)
      [] a.op = "peek_mru"      -> ApplyPeekEnd(s, FALSE)
      [] a.op \in {"remove", "remove_entry"} -> ApplyRemoveFix(s, a.k, a.op)
      [] a.op = "remove_lru"    -> ApplyRemoveEnd(s, TRUE)
      [] a.op = "remove_mru"    -> ApplyRemoveEnd(s, FALSE)
      [] a.op = "mutate"        -> ApplyMutate(s, a.k, a.vs)
      [] a.op = "set_max_size"  -> ApplySetMax(s, a.n)
      [] a.op = "retain"        -> ApplyRetain(s, a.keep)
      [] a.op = "clear"         -> ApplyClear(s)
      [] a.op = "reserve"       -> ApplyReserve(s, a.n)
      [] a.op = "try_reserve"   -> ApplyTryReserve(s, a.n, a.fl)
      [] a.op = "shrink_to"     -> ApplyShrinkTo(s, a.n)
      [] a.op = "shrink_to_fit" -> ApplyShrinkTo(s, 0)
      [] a.op \in {"len", "is_empty", "current_size", "max_size", "capacity", "debug", "hasher"}
                                -> ApplyScalar(s, a.op)
      [] a.op \in IterKinds     -> ApplyIter(s, a.op, a.w, a.fl)

(* calls whose returned objects are owned by the caller afterwards *)
OwnRetOps == {"insert", "try_insert", "remove", "remove_entry", "remove_lru",
              "remove_mru", "mutate"}

Apply(s, a) ==
    IF a.op \in IterKinds THEN Apply0(s, a)
    ELSE { [o EXCEPT !.handed = IF a.op \in OwnRetOps
                                THEN {o.ret.key, o.ret.val} \ {NoM, RM} ELSE {}]
           : o \in Apply0(s, a) }

(* classification of operations used by the properties *)
PromotingOps == {"insert", "try_insert", "get", "get_entry", "get_lru", "touch", "mutate"}
ReadOps      == {"peek", "peek_entry", "peek_lru", "peek_mru", "contains", "len",
                 "is_empty", "current_size", "max_size", "capacity", "debug", "hasher",
                 "iter", "keys", "values", "clone", "clone_from"}
CapacityOps  == {"reserve", "try_reserve", "shrink_to", "shrink_to_fit"}
EvictingOps  == {"insert", "mutate", "set_max_size"}
RebuildOps   == CapacityOps \cup {"clone", "clone_from"}
NoHashOps    == {"peek_lru", "peek_mru", "clear", "debug", "hasher"} \cup IterKinds

-----------------------------------------------------------------------------
(***************************************************************************)
(* The listed properties, stated DECLARATIVELY (from their text, not by    *)
(* re-using the Apply operators).  A state predicate takes a cache record; *)
(* a step predicate takes the cache before (s), the operation (a) and a    *)
(* step record x with the fields of an outcome (x.s = cache afterwards).   *)
(* TLC checks them on every transition of the bounded models (against the  *)
(* constructive operators above) and trace validation evaluates the very   *)
(* same predicates on every step recorded from the real code.              *)
(***************************************************************************)

Present(s, k)  == k \in KeysOf(s.ord)
EntOf(s, k)    == IF Pos(s.ord, k) = 0 THEN Ent(k, -1, -1, -1) ELSE s.ord[Pos(s.ord, k)]
Rel(o, K)      == SelectSeq(KeySeq(o), LAMBDA k : k \in K)
RevSeq(q)      == [i \in 1..Len(q) |-> q[Len(q) + 1 - i]]
Succeeded(a, x) == x.ret.tag \in {"OkNone", "OkSome", "Ok", "unit", "Some", "int",
                                   "true", "false", "dropped", "forgot", "own"}

(* C01: the memory bound *)
C01_Bound(s) == s.alive => ULeq(s.cur, s.max)

(* C02: exact accounting.  `stale` = keys whose value changed size inside   *)
(* a mutate that panicked (the only way a recorded size may lag).           *)
C02_Exact(s, stale) ==
    s.alive => /\ s.cur = SumRec(s.ord)
               /\ \A i \in DOMAIN s.ord :
                     s.ord[i].k \notin stale =>
                         s.ord[i].rec = s.ord[i].kh + s.ord[i].vs + Overhead
               /\ (s.cur = 0) <=> (s.ord = <<>>)

(* C02, per-step deltas *)
C02_Step(s, a, x) ==
    /\ (a.op \in {"insert", "try_insert"} /\ Succeeded(a, x) /\ ~Present(s, a.k) /\ x.ev = <<>>)
          => x.s.cur = s.cur + a.kh + a.vs + Overhead
    /\ (a.op \in {"remove", "remove_entry"} /\ Present(s, a.k))
          => x.s.cur = s.cur - EntOf(s, a.k).rec
    /\ (a.op = "mutate" /\ x.ret.tag = "OkSome" /\ x.ev = <<>>)
          => x.s.cur = s.cur + (EntOf(s, a.k).kh + a.vs + Overhead - EntOf(s, a.k).rec)
    /\ (a.op \in {"clear", "drain"}) => (x.s.cur = 0 /\ x.s.ord = <<>>)

(* keys whose removal the caller asked for *)
AskedOut(s, a, x) ==
    CASE a.op \in {"remove", "remove_entry"}  -> {a.k}
      [] a.op = "remove_lru" -> IF s.ord = <<>> THEN {} ELSE {s.ord[1].k}
      [] a.op = "remove_mru" -> IF s.ord = <<>> THEN {} ELSE {s.ord[Len(s.ord)].k}
      [] a.op = "retain"     -> KeysOf(s.ord) \ a.keep
      [] a.op \in {"clear", "drain"} \cup OwningKinds -> KeysOf(s.ord)
      [] a.op = "mutate" /\ x.ret.tag = "EntryTooLarge" -> {a.k}
      [] OTHER -> {}

(* C03: eviction is LRU-first, minimal, and spares the subject *)
C03_Step(s, a, x) ==
    LET evicting == a.op \in EvictingOps /\ Succeeded(a, x)
        subj     == IF a.op = "set_max_size" THEN {} ELSE {a.k}
        o        == SelectSeq(s.ord,   LAMBDA e : e.k \notin subj)
        o2       == SelectSeq(x.s.ord, LAMBDA e : e.k \notin subj)
        j        == Len(o) - Len(o2)
        subjSz   == IF subj # {} /\ Present(x.s, a.k) THEN EntOf(x.s, a.k).rec ELSE 0
        Fits(i)  == ULeq(subjSz + SumRec(DropN(o, i)), x.s.max)
    IN IF evicting
       THEN /\ j >= 0
            /\ o2 = DropN(o, j)                 \* survivors: untouched suffix
            /\ x.ev = TakeN(o, j)               \* evicted: LRU prefix, oldest first
            /\ Fits(j) /\ (j = 0 \/ ~Fits(j - 1))   \* shortest such prefix
            /\ (a.op = "insert" => Present(x.s, a.k))
            /\ (a.op = "mutate" /\ Present(s, a.k) => Present(x.s, a.k))
       ELSE /\ x.ev = <<>>
            /\ KeysOf(s.ord) \ KeysOf(x.s.ord) \subseteq AskedOut(s, a, x)

(* C04: faithful map *)
C04_NoDup(s) == NoDup(s.ord)

C04_Step(s, a, x) ==
    LET pre == KeysOf(s.ord)  post == KeysOf(x.s.ord)
        evk == {x.ev[i].k : i \in DOMAIN x.ev}
    IN
    /\ (a.op \in {"get", "peek"}) =>
          IF a.k \in pre THEN x.ret.tag = "Some" /\ x.ret.val = MV(a.k) /\ x.ret.d = EntOf(s, a.k).vs
                         ELSE x.ret.tag = "None"
    /\ (a.op \in {"get_entry", "peek_entry"}) =>
          IF a.k \in pre THEN x.ret.tag = "Some" /\ x.ret.key = MK(a.k) /\ x.ret.val = MV(a.k)
                         ELSE x.ret.tag = "None"
    /\ (a.op = "contains") => x.ret.tag = (IF a.k \in pre THEN "true" ELSE "false")
    /\ (a.op = "remove") =>
          IF a.k \in pre THEN x.ret.tag = "Some" /\ x.ret.val = MV(a.k) /\ post = pre \ {a.k}
                         ELSE x.ret.tag = "None" /\ post = pre
    /\ (a.op = "remove_entry") =>
          IF a.k \in pre THEN x.ret.tag = "Some" /\ x.ret.key = MK(a.k) /\ x.ret.val = MV(a.k)
                              /\ post = pre \ {a.k}
                         ELSE x.ret.tag = "None" /\ post = pre
    /\ (a.op = "insert" /\ Succeeded(a, x)) =>
          /\ x.ret.tag = (IF a.k \in pre THEN "OkSome" ELSE "OkNone")
          /\ (a.k \in pre => x.ret.val = MV(a.k))
          /\ post = (pre \ evk) \cup {a.k}
          /\ x.fresh = a.k /\ EntOf(x.s, a.k).kh = a.kh /\ EntOf(x.s, a.k).vs = a.vs
    /\ (a.op = "try_insert" /\ x.ret.tag = "Ok") =>
          /\ a.k \notin pre /\ post = pre \cup {a.k} /\ x.fresh = a.k
    /\ (a.op \in {"remove_lru", "remove_mru"}) =>
          IF pre = {} THEN x.ret.tag = "None"
          ELSE LET e == IF a.op = "remove_lru" THEN s.ord[1] ELSE s.ord[Len(s.ord)]
               IN x.ret.tag = "Some" /\ x.ret.key = MK(e.k) /\ x.ret.val = MV(e.k)
                  /\ post = pre \ {e.k}
    \* entries other than the subject keep their stored objects and sizes
    /\ \A i \in DOMAIN x.s.ord :
          LET e == x.s.ord[i] IN
          (e.k # x.fresh /\ ~(a.op = "mutate" /\ e.k = a.k)) =>
              (Present(s, e.k) /\ EntOf(s, e.k) = e)

(* C05: recency order *)
C05_Step(s, a, x) ==
    LET subj == CASE a.op = "get_lru" -> IF s.ord = <<>> THEN {} ELSE {s.ord[1].k}
                  [] a.op \in {"get", "get_entry", "touch"} ->
                         IF Present(s, a.k) THEN {a.k} ELSE {}
                  [] a.op = "mutate" ->
                         IF Present(s, a.k) /\ x.ret.tag = "OkSome" THEN {a.k} ELSE {}
                  [] a.op \in {"insert", "try_insert"} ->
                         IF Succeeded(a, x) THEN {a.k} ELSE {}
                  [] OTHER -> {}
        common == (KeysOf(s.ord) \cap KeysOf(x.s.ord)) \ subj
    IN /\ Rel(s.ord, common) = Rel(x.s.ord, common)
       /\ \A k \in subj : x.s.ord # <<>> /\ x.s.ord[Len(x.s.ord)].k = k
       /\ (a.op = "peek_lru" /\ s.ord # <<>>) => x.ret.key = MK(s.ord[1].k)
       /\ (a.op = "peek_mru" /\ s.ord # <<>>) => x.ret.key = MK(s.ord[Len(s.ord)].k)
       /\ (a.op = "debug") => x.ret.seq = KeySeq(s.ord)

(* C06: every object is in exactly one place after the call *)
AfterObjs(x) == UNION {IF x.s.ord[i].k = x.fresh THEN {AK, AV}
                       ELSE {MK(x.s.ord[i].k), MV(x.s.ord[i].k)} : i \in DOMAIN x.s.ord}
ArgObjs(a)   == IF a.op \in {"insert", "try_insert"} THEN {AK, AV} ELSE {}

C06_Step(s, a, x) ==
    LET before == MarkersOf(s.ord) \cup ArgObjs(a)
        \* a recorded step says which objects are stored; a model step implies it
        after  == IF "after" \in DOMAIN x THEN x.after ELSE AfterObjs(x)
    IN /\ before = after \cup x.dropped \cup x.handed \cup x.leaked
       /\ after \cap x.dropped = {} /\ after \cap x.handed = {} /\ after \cap x.leaked = {}
       /\ x.dropped \cap x.handed = {} /\ x.dropped \cap x.leaked = {}
       /\ x.handed \cap x.leaked = {}
       /\ (x.leaked # {} => a.op \in IterKinds /\ a.fl)

(* C10: rejected insertions *)
C10_Step(s, a, x) ==
    LET es   == a.kh + a.vs + Overhead
        free == s.max - s.cur
        want == IF UGt(es, s.max) THEN "EntryTooLarge"
                ELSE IF a.op = "insert" THEN "ok"
                ELSE IF UGt(es, free) THEN "WouldEjectLru"
                ELSE IF Present(s, a.k) THEN "OccupiedEntry" ELSE "ok"
        failed == x.ret.tag \in {"EntryTooLarge", "WouldEjectLru", "OccupiedEntry"}
    IN (a.op \in {"insert", "try_insert"}) =>
       /\ (want = "ok") <=> ~failed
       /\ failed => /\ x.ret.tag = want
                    /\ x.s = s /\ x.dropped = {} /\ x.ev = <<>>
                    /\ x.ret.key = AK /\ x.ret.val = AV
                    /\ (want = "EntryTooLarge" => x.ret.a = es /\ x.ret.b = s.max)
                    /\ (want = "WouldEjectLru" => x.ret.a = es /\ x.ret.b = free)
       /\ (~failed /\ ~Present(s, a.k) /\ ULeq(es, free)) => x.ev = <<>>
       /\ (~failed /\ a.op = "try_insert") => x.ev = <<>> /\ x.dropped = {}

(* C11: mutate *)
C11_Step(s, a, x) ==
    (a.op = "mutate") =>
    IF ~Present(s, a.k)
    THEN x.ret.tag = "OkNone" /\ x.ret.seq = <<>> /\ x.s = s
    ELSE LET i   == Pos(s.ord, a.k)
             e   == s.ord[i]
             new == e.kh + a.vs + Overhead      \* the entry's size, measured anew
         IN /\ x.ret.seq = <<a.k>>
            /\ IF new > e.rec /\ UGt(new, s.max)
               THEN /\ x.ret.tag = "EntryTooLarge"
                    /\ x.ret.a = e.rec /\ x.ret.b = new /\ x.ret.c = s.max
                    /\ x.ret.key = MK(a.k) /\ x.ret.val = MV(a.k) /\ x.ret.d = a.vs
                    /\ x.s.ord = DropAt(s.ord, i)          \* nobody else touched
                    /\ x.s.cur = s.cur - e.rec /\ x.s.max = s.max
                    /\ x.dropped = {} /\ x.ev = <<>>
               ELSE /\ x.ret.tag = "OkSome" /\ x.ret.val = RM
                    /\ Present(x.s, a.k)
                    /\ x.s.ord[Len(x.s.ord)] = [e EXCEPT !.vs = a.vs, !.rec = new]
                    /\ (new <= e.rec => x.ev = <<>>)
                    \* "evicting older entries only as far as needed" - and as far as needed:
                    \* the shortest least-recently-used prefix of the OTHER entries after
                    \* whose removal the re-measured entry fits
                    /\ LET o       == DropAt(s.ord, i)
                           j       == Len(x.ev)
                           Fits(n) == ULeq(new + SumRec(DropN(o, n)), s.max)
                       IN /\ j <= Len(o) /\ x.ev = TakeN(o, j)
                          /\ Fits(j) /\ (j = 0 \/ ~Fits(j - 1))

(* C12: iterator runs, stated by POSITION in the least-to-most-recently-used *)
(* sequence ks: the j-th call asks for FD(j) entries from the front and     *)
(* BD(j) from the back in total (a plain next / next_back asks for one, an   *)
(* nth(J) for J + 1); it yields the entry at that distance from its end if   *)
(* the two demands still fit into ks, and None from then on.                 *)
RECURSIVE DemandSum(_, _, _)
DemandSum(w, j, letters) ==
    IF j = 0 THEN 0
    ELSE DemandSum(w, j - 1, letters) + (IF w[j] \in letters THEN SkipOf(w[j]) + 1 ELSE 0)

C12_Step(s, a, x) ==
    (a.op \in IterKinds) =>
    LET ys  == x.ret.seq
        ks  == KeySeq(s.ord)
        n   == Len(ks)
        FD(j) == DemandSum(a.w, j, FrontLetters)
        BD(j) == DemandSum(a.w, j, BackLetters)
        Fits(j) == FD(j) + BD(j) <= n
        last    == Len(a.w)
        \* positions consumed by the run: everything once a call did not fit
        allFit  == \A j \in 1..last : Fits(j)
        consumed == IF allFit THEN (1..FD(last)) \cup ((n + 1 - BD(last))..n) ELSE 1..n
        yielded == {ys[j] : j \in DOMAIN ys} \ {0}
        skipped == SelectSeq(s.ord, LAMBDA e : e.k \notin yielded
                                               /\ \E i \in consumed : ks[i] = e.k)
        rest    == SelectSeq(s.ord, LAMBDA e : \A i \in consumed : ks[i] # e.k)
    IN /\ Len(ys) = last
       /\ \A j \in 1..last : a.w[j] \in IterLetters
       /\ \A j \in 1..last :
             IF \A i \in 1..j : Fits(i)
             THEN ys[j] = (IF a.w[j] \in FrontLetters THEN ks[FD(j)]        \* front: LRU to MRU
                                                     ELSE ks[n + 1 - BD(j)]) \* back: MRU to LRU
             ELSE ys[j] = 0                       \* None once exhausted, then forever
       /\ Cardinality(yielded) = Cardinality({j \in DOMAIN ys : ys[j] # 0})   \* each once
       /\ (a.op \in BorrowingKinds => x.s = s /\ x.dropped = {} /\ x.handed = {})
       /\ (a.op = "drain" => /\ x.s.alive /\ x.s.ord = <<>> /\ x.s.cur = 0
                             /\ x.s.max = s.max)
       /\ (a.op \in OwningKinds => ~x.s.alive)
       /\ (a.op \notin BorrowingKinds) =>
             MarkersOf(skipped) \subseteq x.dropped  \* what nth passed over is dropped
       /\ (a.op \notin BorrowingKinds /\ ~a.fl) =>
             MarkersOf(rest) \subseteq x.dropped     \* the unconsumed rest is dropped

(* C13: capacity management *)
C13_CapSane(s) == s.alive => (Cap(s) >= Len(s.ord) /\ s.t >= 0)

C13_Step(s, a, x) ==
    LET len == Len(s.ord) IN
    /\ (a.op = "reserve" /\ x.ret.tag = "unit") => Cap(x.s) >= len + a.n
    /\ (a.op = "try_reserve" /\ x.ret.tag = "Ok") => Cap(x.s) >= len + a.n
    /\ (a.op = "try_reserve" /\ x.ret.tag # "Ok") => x.s = s
    /\ (a.op = "reserve" /\ x.ret.tag = "panic") => x.s = s
    /\ (a.op \in {"shrink_to", "shrink_to_fit"}) =>
          LET m == UMax2(len, IF a.op = "shrink_to" THEN a.n ELSE 0) IN
          (ULeq(m, Cap(s)) => ULeq(m, Cap(x.s)))
    /\ (a.op \in CapacityOps) =>
          (x.s.ord = s.ord /\ x.s.cur = s.cur /\ x.s.max = s.max
           /\ x.dropped = {} /\ x.ev = <<>>)
    \* automatic growth: only when full, to the smallest table for twice the entries
    /\ x.grew => /\ a.op \in {"insert", "try_insert"}
                 /\ x.s.b = CapToBuckets(Max2(2 * (Len(x.s.ord) - 1), 1)) /\ x.s.t = 0
    /\ (a.op \notin CapacityOps /\ ~x.grew /\ x.s.alive) => x.s.b = s.b

(* the part of C13 that the pinned code violates when tombstones exist     *)
(* (finding F5): shrinking never raises the capacity                       *)
C13_ShrinkNeverRaises(s, a, x) ==
    (a.op \in {"shrink_to", "shrink_to_fit"}) => Cap(x.s) <= Cap(s)

(* ghost history for the growth bound: peak length, largest explicitly      *)
(* requested capacity, and whether the cache still is as created            *)
GhostInit(cap) == [peak |-> 0, req |-> cap, virgin |-> TRUE, initcap |-> cap]
GhostNext(g, s, a, x) ==
    [peak   |-> Max2(g.peak, Len(x.s.ord)),
     req    |-> IF a.op \in {"reserve", "try_reserve"} /\ ~IsBig(a.n)
                THEN Max2(g.req, Len(s.ord) + a.n) ELSE g.req,
     virgin |-> g.virgin /\ (a.op \in ReadOps
                             \/ (a.op \in {"insert", "try_insert"} /\ ~Present(s, a.k)
                                 /\ x.ev = <<>>)),
     initcap |-> g.initcap]

C13_GrowthBound(s, g) ==
    s.alive => (Cap(s) < Max2(4 * g.peak, 16) \/ Cap(s) <= FullCap(CapToBuckets(g.req)))

(* with_capacity(n) takes n fresh insertions without the capacity changing *)
C13_Virgin(s, a, x, g) ==
    (g.virgin /\ a.op \in {"insert", "try_insert"} /\ ~Present(s, a.k)
     /\ Len(s.ord) < g.initcap /\ Succeeded(a, x) /\ x.ev = <<>>)
        => (Cap(x.s) = Cap(s) /\ ~x.grew)

(* C14: clone (d = the new cache) *)
C14_Clone(s, d) ==
    /\ d.alive /\ d.ord = s.ord /\ d.cur = s.cur /\ d.max = s.max
    /\ Cap(d) >= Cap(s)

(* C15: retain *)
C15_Step(s, a, x) ==
    (a.op = "retain") =>
    LET gone == SelectSeq(s.ord, LAMBDA e : e.k \notin a.keep) IN
    /\ x.ret.seq = KeySeq(s.ord)                     \* once each, LRU to MRU
    /\ x.s.ord = SelectSeq(s.ord, LAMBDA e : e.k \in a.keep)
    /\ x.dropped = MarkersOf(gone)
    /\ x.s.cur = s.cur - SumRec(gone) /\ x.s.max = s.max

(* C19: shared-reference operations change nothing *)
C19_Step(s, a, x) == (a.op \in ReadOps) => x.s = s

(* C20: hashing work *)
HashBound(s, a, x) ==
    LET departed == Cardinality(KeysOf(s.ord) \ KeysOf(x.s.ord))
                    + (IF a.op = "insert" /\ Succeeded(a, x) /\ Present(s, a.k) THEN 1 ELSE 0)
        rebuilds == (a.op \in RebuildOps) \/ x.grew
        held     == Len(x.s.ord) - (IF x.grew THEN 1 ELSE 0)
    IN IF a.op \in NoHashOps THEN 0
       ELSE 2 + departed + (IF rebuilds THEN held ELSE 0)

C20_Step(s, a, x) == x.hashmax <= HashBound(s, a, x)

(* all step properties that hold for every ordinary (non-crash) call *)
StepProps(s, a, x) ==
    /\ C02_Step(s, a, x) /\ C03_Step(s, a, x) /\ C04_Step(s, a, x)
    /\ C05_Step(s, a, x) /\ C06_Step(s, a, x) /\ C10_Step(s, a, x)
    /\ C11_Step(s, a, x) /\ C12_Step(s, a, x) /\ C13_Step(s, a, x)
    /\ C15_Step(s, a, x) /\ C19_Step(s, a, x) /\ C20_Step(s, a, x)

=============================================================================
