//! Prints facts about the build under test that the specification needs as
//! constants (measured, never assumed).
use lru_mem_verif_harness::*;
use serde_json::json;

#[global_allocator]
static A: alloc::CountingAlloc = alloc::CountingAlloc;

fn main() {
    let k = TKey::probe(1);
    let v = TVal::raw(0, 0, 0);
    let overhead = lru_mem::entry_size(&k, &v);
    let c = Cache::with_hasher(0, HB::Const);
    let stride = c.verif_snapshot().stride;
    // group width: the smallest table in which a removal can leave a tombstone
    use lru_mem::MemSize;
    println!("{}", json!({"overhead": overhead, "stride": stride, "shape": shape_name(),
        "key_size": k.mem_size(), "value_size": v.mem_size(),
        "needs_drop": [std::mem::needs_drop::<TKey>(), std::mem::needs_drop::<TVal>()],
        "group_width": if cfg!(target_feature = "sse2") { 16 } else { 8 }}));
}
