SPECIFICATION Spec
CONSTANTS
  Overhead = 56
  GroupWidth = 16
  CacheIds = {1}
  Keys <- IKeys4
  KHeaps <- IKHeaps
  VSizes <- IVSizes
  Limits <- ILimits
  InitCaps <- IInitCaps
  Addl <- IAddl
  Ops <- IOps
  MaxWord = 1
  Letters = {"n", "b", "s1", "s2", "r1", "r2"}
INVARIANT TypeOK
INVARIANT Inv
PROPERTY StepProp
VIEW CheckView
CHECK_DEADLOCK FALSE
