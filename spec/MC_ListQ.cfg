SPECIFICATION Spec
CONSTANTS
  Keys = {1, 2, 3}
  NS = 3
  MaxT = 3
  MaxLen = 2
  HashFirst = TRUE
  DetachEarly = TRUE
  Crashes = TRUE
INVARIANT MemSafe
INVARIANT WellFormed
INVARIANT Refines
INVARIANT Bounded
INVARIANT IterRefines
CHECK_DEADLOCK FALSE
