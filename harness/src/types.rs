//! Instrumented key / value types, token registry, callback counters with an
//! armable panic, and the hashers the specification is agnostic to.

use lru_mem::HeapSize;

use std::borrow::Borrow;
use std::cell::{Cell, RefCell};
use std::collections::HashMap;
use std::hash::{BuildHasher, Hash, Hasher};

// ---------------------------------------------------------------------------
// callback kinds, counters, crash arming

#[derive(Clone, Copy, Debug, PartialEq, Eq)]
pub enum Kind {
    Hash = 0,
    Eq = 1,
    Clone = 2,
    Size = 3,
    Closure = 4
}

pub const KIND_NAMES: [&str; 5] = ["hash", "eq", "clone", "size", "closure"];

pub fn kind_from_name(name: &str) -> Option<Kind> {
    match name {
        "hash" => Some(Kind::Hash),
        "eq" => Some(Kind::Eq),
        "clone" => Some(Kind::Clone),
        "size" => Some(Kind::Size),
        "closure" | "closure_after" => Some(Kind::Closure),
        _ => None
    }
}

/// Payload of an injected panic.
pub struct VerifPanic(pub Kind);

thread_local! {
    static COUNTS: Cell<[u64; 5]> = const { Cell::new([0; 5]) };
    static ARMED: Cell<Option<(Kind, u32)>> = const { Cell::new(None) };
    static FIRED: Cell<bool> = const { Cell::new(false) };
}

pub fn counts_reset() {
    COUNTS.with(|c| c.set([0; 5]));
}

pub fn counts() -> [u64; 5] {
    COUNTS.with(|c| c.get())
}

/// Arms a panic at the n-th (1-based) callback of the given kind from now.
pub fn arm(kind: Kind, n: u32) {
    ARMED.with(|a| a.set(Some((kind, n))));
    FIRED.with(|f| f.set(false));
}

/// Disarms and tells whether the armed panic fired.
pub fn disarm() -> bool {
    ARMED.with(|a| a.set(None));
    FIRED.with(|f| f.replace(false))
}

/// Called by every user callback.
pub fn tick(kind: Kind) {
    COUNTS.with(|c| {
        let mut v = c.get();
        v[kind as usize] += 1;
        c.set(v);
    });

    let fire = ARMED.with(|a| {
        match a.get() {
            Some((k, n)) if k == kind => {
                if n <= 1 {
                    a.set(None);
                    true
                }
                else {
                    a.set(Some((k, n - 1)));
                    false
                }
            },
            _ => false
        }
    });

    if fire {
        FIRED.with(|f| f.set(true));
        std::panic::panic_any(VerifPanic(kind));
    }
}

// ---------------------------------------------------------------------------
// token registry

#[derive(Clone, Copy, Debug, PartialEq, Eq)]
pub enum TokState {
    Live,
    Dropped,
    /// An object of a type without a destructor (type shapes `plainkey` / `plainval`): it has an
    /// identity, but nobody is told when it goes away.
    Untracked
}

/// Type shapes (cargo features of the harness): the same instrumented key / value types with
/// a different *shape* as far as the crate under test can tell - no drop glue for the key
/// or the value (`mem::needs_drop` is false), or a layout under which `size_of::<Entry<K, V>>()`
/// exceeds the sizes of its parts (padding).
pub const TRACK_K: bool = !cfg!(feature = "shape_plainkey");
pub const TRACK_V: bool = !cfg!(feature = "shape_plainval");

pub fn shape_name() -> &'static str {
    if cfg!(feature = "shape_plainkey") { "plainkey" }
    else if cfg!(feature = "shape_plainval") { "plainval" }
    else if cfg!(feature = "shape_padded") { "padded" }
    else { "default" }
}

#[derive(Default)]
pub struct Registry {
    next: u64,
    state: HashMap<u64, TokState>,
    origin: HashMap<u64, u64>,
    window: Vec<u64>,
    anomalies: Vec<String>
}

thread_local! {
    static REG: RefCell<Registry> = RefCell::new(Registry::default());
}

thread_local! {
    /// While set, new objects are not tracked (token 0) - used for the throw-away clones made
    /// while a cache's memory is mapped read-only.
    static QUIET: Cell<bool> = const { Cell::new(false) };
    /// While > 0, a cloned key's id is the original's id modulo this number: a `Clone` that does
    /// not preserve equality (distinct keys of the source become equal in the clone).
    static COLLAPSE: Cell<u32> = const { Cell::new(0) };
}

pub fn set_quiet(on: bool) {
    QUIET.with(|q| q.set(on));
}

pub fn set_collapse(m: u32) {
    COLLAPSE.with(|c| c.set(m));
}

fn mint(origin: Option<u64>) -> u64 {
    mint_as(origin, true)
}

fn mint_as(origin: Option<u64>, tracked: bool) -> u64 {
    if QUIET.with(|q| q.get()) {
        return 0;
    }

    REG.with(|r| {
        let mut r = r.borrow_mut();
        r.next += 1;
        let t = r.next;
        r.state.insert(t, if tracked { TokState::Live } else { TokState::Untracked });

        if let Some(o) = origin {
            r.origin.insert(t, o);
        }

        t
    })
}

fn note_drop(tok: u64) {
    if tok == 0 {
        return;
    }

    let _ = REG.try_with(|r| {
        match r.try_borrow_mut() {
            Ok(mut r) => {
                match r.state.get(&tok).copied() {
                    Some(TokState::Live) => {
                        r.state.insert(tok, TokState::Dropped);
                        r.window.push(tok);
                    },
                    Some(TokState::Dropped) => {
                        r.anomalies.push(format!("double_drop:{}", tok));
                        r.window.push(tok);
                    },
                    Some(TokState::Untracked) => { },
                    None => {
                        r.anomalies.push(format!("unknown_drop:{}", tok));
                    }
                }
            },
            Err(_) => { }
        }
    });
}

pub fn reg_reset() {
    REG.with(|r| *r.borrow_mut() = Registry::default());
}

/// Starts a window: drops from now on are collected.
pub fn reg_window_start() {
    REG.with(|r| r.borrow_mut().window.clear());
}

pub fn reg_window_take() -> Vec<u64> {
    REG.with(|r| std::mem::take(&mut r.borrow_mut().window))
}

pub fn reg_anomalies_take() -> Vec<String> {
    REG.with(|r| std::mem::take(&mut r.borrow_mut().anomalies))
}

pub fn reg_note(anomaly: String) {
    REG.with(|r| r.borrow_mut().anomalies.push(anomaly));
}

pub fn reg_state(tok: u64) -> Option<TokState> {
    REG.with(|r| r.borrow().state.get(&tok).copied())
}

pub fn reg_origin(tok: u64) -> Option<u64> {
    REG.with(|r| r.borrow().origin.get(&tok).copied())
}

/// Tokens that are still live.
pub fn reg_live() -> Vec<u64> {
    REG.with(|r| {
        let r = r.borrow();
        let mut v: Vec<u64> = r.state.iter()
            .filter(|(_, s)| **s == TokState::Live)
            .map(|(t, _)| *t)
            .collect();
        v.sort();
        v
    })
}

pub fn reg_minted() -> u64 {
    REG.with(|r| r.borrow().next)
}

// ---------------------------------------------------------------------------
// keys and values. Both are plain data (no owned heap memory), so that even a
// use-after-move inside the code under test cannot crash the harness; their
// identity is the token.

/// Borrowed form of a key.
#[derive(Clone, Copy, Debug)]
#[repr(transparent)]
pub struct KeyId(pub u32);

impl Hash for KeyId {
    fn hash<H: Hasher>(&self, state: &mut H) {
        tick(Kind::Hash);
        state.write_u32(self.0);
    }
}

impl PartialEq for KeyId {
    fn eq(&self, other: &KeyId) -> bool {
        tick(Kind::Eq);
        self.0 == other.0
    }
}

impl Eq for KeyId { }

#[cfg(not(feature = "shape_padded"))]
#[repr(C)]
pub struct TKey {
    pub id: KeyId,
    pub heap: u32,
    pub tok: u64
}

/// Shape `padded`: 20 bytes aligned to 4 (and a 16-byte value), so that an `Entry<TKey, TVal>`
/// has 4 bytes of padding that belong neither to the key nor to the value - its size is the
/// same 64 bytes as in the default shape, but no longer the sum of its parts.
#[cfg(feature = "shape_padded")]
#[repr(C, packed(4))]
pub struct TKey {
    pub id: KeyId,
    pub heap: u32,
    pub tok: u64,
    pub extra: u32
}

impl TKey {
    #[cfg(not(feature = "shape_padded"))]
    fn make(id: KeyId, heap: u32, tok: u64) -> TKey {
        TKey { id, heap, tok }
    }

    #[cfg(feature = "shape_padded")]
    fn make(id: KeyId, heap: u32, tok: u64) -> TKey {
        TKey { id, heap, tok, extra: 0 }
    }

    pub fn new(id: u32, heap: u32) -> TKey {
        TKey::make(KeyId(id), heap, mint_as(None, TRACK_K))
    }

    /// A key object used for lookups only; it is not tracked.
    pub fn probe(id: u32) -> TKey {
        TKey::make(KeyId(id), 0, 0)
    }
}

#[cfg(not(feature = "shape_plainkey"))]
impl Drop for TKey {
    fn drop(&mut self) {
        note_drop(self.tok);
    }
}

impl Hash for TKey {
    fn hash<H: Hasher>(&self, state: &mut H) {
        tick(Kind::Hash);
        state.write_u32(self.id.0);
    }
}

impl PartialEq for TKey {
    fn eq(&self, other: &TKey) -> bool {
        tick(Kind::Eq);
        self.id.0 == other.id.0
    }
}

impl Eq for TKey { }

impl Borrow<KeyId> for TKey {
    fn borrow(&self) -> &KeyId {
        &self.id
    }
}

impl Clone for TKey {
    fn clone(&self) -> TKey {
        tick(Kind::Clone);
        let m = COLLAPSE.with(|c| c.get());
        let id = if m > 0 { KeyId(self.id.0 % m) } else { self.id };
        TKey::make(id, self.heap, mint_as(Some(self.tok), TRACK_K))
    }
}

impl HeapSize for TKey {
    fn heap_size(&self) -> usize {
        tick(Kind::Size);
        self.heap as usize
    }
}

impl std::fmt::Debug for TKey {
    fn fmt(&self, f: &mut std::fmt::Formatter<'_>) -> std::fmt::Result {
        write!(f, "{}", self.id.0)
    }
}

#[cfg(not(feature = "shape_padded"))]
pub struct TVal {
    pub tok: u64,
    pub heap: usize,
    /// by how much a clone's heap size differs from the original's (a `String` with
    /// spare capacity clones to a tight one; 0 = faithful)
    pub clone_delta: i64
}

#[cfg(feature = "shape_padded")]
pub struct TVal {
    pub tok: u64,
    pub heap: usize
}

impl TVal {
    #[cfg(not(feature = "shape_padded"))]
    pub fn raw(tok: u64, heap: usize, clone_delta: i64) -> TVal {
        TVal { tok, heap, clone_delta }
    }

    #[cfg(feature = "shape_padded")]
    pub fn raw(tok: u64, heap: usize, _clone_delta: i64) -> TVal {
        TVal { tok, heap }
    }

    #[cfg(not(feature = "shape_padded"))]
    fn delta(&self) -> i64 { self.clone_delta }

    #[cfg(feature = "shape_padded")]
    fn delta(&self) -> i64 { 0 }

    pub fn new(heap: usize) -> TVal {
        TVal::raw(mint_as(None, TRACK_V), heap, 0)
    }

    pub fn with_clone_delta(heap: usize, clone_delta: i64) -> TVal {
        TVal::raw(mint_as(None, TRACK_V), heap, clone_delta)
    }
}

#[cfg(not(feature = "shape_plainval"))]
impl Drop for TVal {
    fn drop(&mut self) {
        note_drop(self.tok);
    }
}

impl Clone for TVal {
    fn clone(&self) -> TVal {
        tick(Kind::Clone);
        let heap = (self.heap as i64 + self.delta()).max(0) as usize;
        TVal::raw(mint_as(Some(self.tok), TRACK_V), heap, self.delta())
    }
}

impl HeapSize for TVal {
    fn heap_size(&self) -> usize {
        tick(Kind::Size);
        self.heap
    }
}

impl std::fmt::Debug for TVal {
    fn fmt(&self, f: &mut std::fmt::Formatter<'_>) -> std::fmt::Result {
        write!(f, "v")
    }
}

// ---------------------------------------------------------------------------
// hashers

#[derive(Debug)]
pub enum HB {
    /// Every key collides completely.
    Const,
    /// One bit of hash.
    OneBit,
    /// The key id itself (all control bytes equal).
    Identity,
    /// SipHash 2-4 with the given keys.
    Sip(u64, u64),
    /// hashbrown's default hasher.
    Default(hashbrown::hash_map::DefaultHashBuilder),
    /// SipHash whose key changes with every `clone()` of the builder (like a builder that draws
    /// a fresh random state when cloned): the clone of a cache hashes differently from its
    /// source, so nothing computed with one builder may be used with the other.
    Reseed(u64)
}

impl Clone for HB {
    fn clone(&self) -> HB {
        match self {
            HB::Const => HB::Const,
            HB::OneBit => HB::OneBit,
            HB::Identity => HB::Identity,
            HB::Sip(a, b) => HB::Sip(*a, *b),
            HB::Default(d) => HB::Default(d.clone()),
            HB::Reseed(s) => HB::Reseed(s.wrapping_mul(0x9E3779B97F4A7C15).wrapping_add(1))
        }
    }
}

impl HB {
    pub fn from_name(name: &str, seed: u64) -> Option<HB> {
        match name {
            "const" => Some(HB::Const),
            "onebit" => Some(HB::OneBit),
            "identity" => Some(HB::Identity),
            "sip" => Some(HB::Sip(0x0706050403020100, 0x0f0e0d0c0b0a0908)),
            "siprand" => Some(HB::Sip(seed.wrapping_mul(0x9E3779B97F4A7C15), !seed)),
            "default" => Some(HB::Default(Default::default())),
            "reseed" => Some(HB::Reseed(seed ^ 0x5bd1e995)),
            _ => None
        }
    }
}

pub enum HH {
    Const,
    OneBit(u64),
    Identity(u64),
    #[allow(deprecated)]
    Sip(std::hash::SipHasher),
    Default(<hashbrown::hash_map::DefaultHashBuilder as BuildHasher>::Hasher)
}

impl BuildHasher for HB {
    type Hasher = HH;

    #[allow(deprecated)]
    fn build_hasher(&self) -> HH {
        match self {
            HB::Const => HH::Const,
            HB::OneBit => HH::OneBit(0),
            HB::Identity => HH::Identity(0),
            HB::Sip(a, b) => HH::Sip(std::hash::SipHasher::new_with_keys(*a, *b)),
            HB::Default(d) => HH::Default(d.build_hasher()),
            HB::Reseed(s) => HH::Sip(std::hash::SipHasher::new_with_keys(*s, !*s))
        }
    }
}

impl Hasher for HH {
    fn finish(&self) -> u64 {
        match self {
            HH::Const => 0,
            HH::OneBit(v) => if v & 1 == 1 { u64::MAX } else { 0 },
            HH::Identity(v) => *v,
            HH::Sip(h) => h.finish(),
            HH::Default(h) => h.finish()
        }
    }

    fn write(&mut self, bytes: &[u8]) {
        match self {
            HH::Const => { },
            HH::OneBit(v) | HH::Identity(v) => {
                for b in bytes {
                    *v = (*v << 8) | (*b as u64);
                }
            },
            HH::Sip(h) => h.write(bytes),
            HH::Default(h) => h.write(bytes)
        }
    }

    fn write_u32(&mut self, i: u32) {
        match self {
            HH::Const => { },
            HH::OneBit(v) | HH::Identity(v) => *v = i as u64,
            HH::Sip(h) => h.write_u32(i),
            HH::Default(h) => h.write_u32(i)
        }
    }
}
