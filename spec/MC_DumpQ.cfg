SPECIFICATION Spec
CONSTANTS
  Overhead = 56
  GroupWidth = 16
  CacheIds = {1}
  Keys <- MCKeys
  KHeaps <- MCKHeaps
  VSizes <- QVSizes
  Limits <- QLimits
  InitCaps <- MCInitCaps
  Addl <- QAddl
  Ops <- MCOps
  MaxWord = 0
  Letters = {"n", "b"}
VIEW DumpView
ACTION_CONSTRAINT Emit
CHECK_DEADLOCK FALSE
