------------------------------- MODULE MemSize -------------------------------
(***************************************************************************)
(* The size algebra of lru-mem's MemSize / HeapSize / ValueSize traits     *)
(* (properties C08, C09), transcribed from the property text - a pure      *)
(* function with rich case analysis.                                       *)
(*                                                                         *)
(* Two uses:                                                               *)
(*  1. TLC enumerates the TYPE TERMS (all nestings of the supported        *)
(*     constructors up to a depth, respecting the trait bounds) - printed  *)
(*     as JSON and turned into generated Rust probes (tools/gen_probes.py).*)
(*  2. TLC validates the records the probes log: for every probed value    *)
(*     the abstract structure (constructor, lengths, capacities, variants, *)
(*     children, size_of facts) together with what the crate computed and  *)
(*     what the counting allocator measured.                               *)
(*                                                                         *)
(* An abstract value is a record with field c (constructor) and sz         *)
(* (size_of_val of the value, measured), plus per constructor:             *)
(*   es   children (elements / fields / payload)                           *)
(*   cap  reserved capacity, len  length                                   *)
(*   esz  size_of the element type, psz  size_of::<(K, V)>()               *)
(***************************************************************************)
EXTENDS Integers, Sequences, FiniteSets, TLC, Json, IOUtils

-----------------------------------------------------------------------------
(* 1. type terms *)

Base == {"u8", "u64", "unit", "char", "String", "BoxStr", "CString", "OsString", "PathBuf",
         "BoxCStr", "BoxPath", "RefStr"}

Unary == {"Vec", "Box", "Option", "Wrapping", "Range", "RangeFrom", "RangeTo",
          "RangeInclusive", "RangeToInclusive", "Mutex", "RwLock", "BinaryHeap", "HashSet",
          "BoxSlice", "Array0", "Array1", "Array3", "Tuple1"}

Binary == {"Result", "Tuple2", "HashMap"}

T0(c)       == [c |-> c, args |-> <<>>]
T1(c, a)    == [c |-> c, args |-> <<a>>]
T2(c, a, b) == [c |-> c, args |-> <<a, b>>]

(* trait bounds of the standard library: what may be a hash key / heap element *)
RECURSIVE KeyLike(_)
KeyLike(t) ==
    CASE t.c \in {"u8", "u64", "unit", "char", "String", "BoxStr", "CString", "OsString",
                  "PathBuf", "BoxCStr", "BoxPath", "RefStr"} -> TRUE
      [] t.c \in {"Vec", "Box", "Option", "Wrapping", "BoxSlice", "Array0", "Array1", "Array3",
                  "Tuple1"} -> KeyLike(t.args[1])
      [] t.c \in {"Result", "Tuple2"} -> KeyLike(t.args[1]) /\ KeyLike(t.args[2])
      [] OTHER -> FALSE

WellTyped1(c, a) == (c \in {"BinaryHeap", "HashSet"}) => KeyLike(a)
WellTyped2(c, a, b) == (c = "HashMap") => KeyLike(a)

RECURSIVE Types(_)
Types(d) ==
    IF d = 1 THEN {T0(c) : c \in Base}
    ELSE LET sub == Types(d - 1) IN
         sub
         \cup {T1(p[1], p[2]) : p \in {q \in Unary \X sub : WellTyped1(q[1], q[2])}}
         \cup {T2(p[1], p[2], p[3]) : p \in {q \in Binary \X sub \X sub :
                                                 WellTyped2(q[1], q[2], q[3])}}

CONSTANT Depth

(* The BULK layer (depth 3, systematic): a specialised bulk helper of a        *)
(* wrapper W is reached only when some container or forwarding wrapper O hands *)
(* its elements to W's helper, i.e. from terms O(W(leaf)).  Every such O over  *)
(* every depth-2 term W(leaf) with a heap-owning and a heap-free representative*)
(* leaf is enumerated (the full depth-3 product has ~10^5 terms; this slice is *)
(* the part of it on which a helper can differ from the element-wise sum).     *)
LeafRep == {"String", "u8"}
Inner ==
    {T1(p[1], T0(p[2])) : p \in {q \in Unary \X LeafRep : WellTyped1(q[1], T0(q[2]))}}
    \cup {T2(p[1], T0(p[2]), T0(p[3])) : p \in Binary \X LeafRep \X LeafRep}
BulkOuter == {"Vec", "BoxSlice", "Array3", "BinaryHeap", "HashSet", "Tuple1", "Wrapping", "Box",
              "Option", "RwLock"}
BulkTypes ==
    {T1(p[1], p[2]) : p \in {q \in BulkOuter \X Inner : WellTyped1(q[1], q[2])}}
    \cup {T2("HashMap", T0("u8"), t) : t \in Inner}
    \cup {T2("Tuple2", t, T0("String")) : t \in Inner}
    \cup {T2("Result", T0("u8"), t) : t \in Inner}
EnumTypes == PrintT(<<"TYPES", ToJson(Types(Depth) \cup BulkTypes)>>)

-----------------------------------------------------------------------------
(* 2. the algebra *)

RECURSIVE SumOver(_, _)
SumOver(F(_), q) == IF q = <<>> THEN 0 ELSE F(Head(q)) + SumOver(F, Tail(q))

BaseCtors == {"u8", "u64", "unit", "char", "RefStr"}

LeafBuffers == {"String", "OsString", "PathBuf", "CString", "BoxStr", "BoxPath", "BoxCStr"}

(* C08: heap_size is COMPOSITIONAL.  The byte-buffer leaves contribute what  *)
(* their own heap_size reported (v.lh, logged); whether THAT number is what  *)
(* the allocator holds is C09's question (Held below).                      *)
RECURSIVE HS(_)
HS(v) ==
    CASE v.c \in BaseCtors -> 0
      [] v.c \in LeafBuffers -> v.lh
      [] v.c \in {"Vec", "BinaryHeap", "HashSet"} -> v.cap * v.esz + SumOver(HS, v.es)
      [] v.c = "HashMap" -> v.cap * v.psz + SumOver(HS, v.es)
      [] v.c = "Box" -> v.es[1].sz + HS(v.es[1])                     \* mem_size of the pointee
      [] v.c = "BoxSlice" -> v.len * v.esz + SumOver(HS, v.es)
      [] OTHER -> SumOver(HS, v.es)      \* Option, Result, tuples, arrays, Wrapping, ranges, locks

(* bytes the value holds from the allocator (C09) *)
RECURSIVE Held(_)
Held(v) ==
    CASE v.c \in BaseCtors -> 0
      [] v.c \in {"String", "OsString", "PathBuf"} -> v.cap
      [] v.c = "CString" -> v.len + 1
      [] v.c \in {"BoxStr", "BoxPath"} -> v.len
      [] v.c = "BoxCStr" -> v.len + 1
      [] v.c \in {"Vec", "BinaryHeap"} -> v.cap * v.esz + SumOver(Held, v.es)
      [] v.c = "Box" -> v.es[1].sz + Held(v.es[1])
      [] v.c = "BoxSlice" -> v.len * v.esz + SumOver(Held, v.es)
      [] v.c \in {"HashMap", "HashSet"} -> -1                       \* not modelled exactly
      [] OTHER -> SumOver(Held, v.es)

RECURSIVE HasTable(_)
HasTable(v) == v.c \in {"HashMap", "HashSet"}
               \/ ("es" \in DOMAIN v /\ \E i \in DOMAIN v.es : HasTable(v.es[i]))

(* lower bound for values containing hash tables *)
RECURSIVE HSLow(_)
HSLow(v) == HS(v)

-----------------------------------------------------------------------------
(* 3. validation of probe records *)

Recs == ndJsonDeserialize(IOEnv.TRACE)

VARIABLES i, nbad

Sel(r, idx) == [j \in DOMAIN idx |-> r.abs.es[idx[j] + 1]]
VSz(v) == v.sz

RecBad(r) ==
    IF r.kind = "value" THEN
       {<<"C08", "mem=value+heap">>   : z \in IF r.mem = r.value + r.heap THEN {} ELSE {1}}
  \cup {<<"C08", "value_size">>       : z \in IF r.value = r.abs.sz THEN {} ELSE {1}}
  \cup {<<"C08", "heap_size">>        : z \in IF r.heap = HS(r.abs) THEN {} ELSE {1}}
  \cup {<<"C09", "allocation_model">> : z \in IF HasTable(r.abs) \/ r.alloc = Held(r.abs) THEN {} ELSE {1}}
  \cup {<<"C09", "heap=allocator">>   : z \in IF HasTable(r.abs) \/ r.heap = r.alloc THEN {} ELSE {1}}
  \cup {<<"C09", "table_bounds">>     : z \in IF HasTable(r.abs) /\ ~(HS(r.abs) <= r.heap /\ r.heap <= r.alloc)
                                              THEN {1} ELSE {}}
    ELSE IF r.kind = "bulk" THEN
       \* r.abs is a Vec of the element type; r.sel the selected indices (0-based);
       \* the *_exact results are -1 for iterator shapes without an exact size
       LET chosen == Sel(r, r.sel)
           hs == SumOver(HS, chosen)
           vs == SumOver(VSz, chosen)
       IN
       {<<"C08", "bulk:heap_size_sum_iter:" \o r.shape>> : z \in IF r.hs_iter = hs THEN {} ELSE {1}}
  \cup {<<"C08", "bulk:heap_size_sum_exact_size_iter:" \o r.shape>> : z \in
            IF r.hs_exact = -1 \/ r.hs_exact = hs THEN {} ELSE {1}}
  \cup {<<"C08", "bulk:value_size_sum_iter:" \o r.shape>> : z \in IF r.vs_iter = vs THEN {} ELSE {1}}
  \cup {<<"C08", "bulk:value_size_sum_exact_size_iter:" \o r.shape>> : z \in
            IF r.vs_exact = -1 \/ r.vs_exact = vs THEN {} ELSE {1}}
    ELSE IF r.kind = "total" THEN
       {<<"C08", "totality:" \o r.status>> : z \in IF r.status = "ok" /\ r.heap = r.expect THEN {} ELSE {1}}
    ELSE {}

MSInit == i = 1 /\ nbad = 0
EnumInit == MSInit /\ EnumTypes
EnumSpec == EnumInit /\ [][FALSE]_<<i, nbad>>
MSNext ==
    /\ i <= Len(Recs)
    /\ LET bad == RecBad(Recs[i]) IN
       /\ (IF bad = {} THEN TRUE
           ELSE PrintT(<<"BAD", ToJson([line |-> i, ty |-> Recs[i].ty, bad |-> bad])>>))
       /\ nbad' = nbad + Cardinality(bad)
    /\ i' = i + 1
MSSpec == MSInit /\ [][MSNext]_<<i, nbad>>
MSDone == (i = Len(Recs) + 1) => PrintT(<<"TRACE-DONE", Len(Recs), nbad>>)

=============================================================================
