SPECIFICATION Spec
CONSTANTS
  Overhead = 56
  GroupWidth = 16
  CacheIds = {1}
  Keys <- IKeys3
  KHeaps <- IKHeaps
  VSizes <- IVSizes
  Limits <- ILimits
  InitCaps <- IInitCaps
  Addl <- IAddl
  Ops <- IOps
  MaxWord = 1
  Letters = {"n", "b", "s1", "s2", "r1", "r2"}
VIEW DumpView
ACTION_CONSTRAINT Emit
CHECK_DEADLOCK FALSE
