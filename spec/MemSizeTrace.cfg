SPECIFICATION MSSpec
CONSTANT Depth = 1
INVARIANT MSDone
CHECK_DEADLOCK FALSE
