----------------------------- MODULE LruMemTrace -----------------------------
(***************************************************************************)
(* Trace validation: every call recorded from the real LruCache must be a  *)
(* step of LruMem.  One TLC state per recorded event.                      *)
(*                                                                         *)
(* For each event the specification                                        *)
(*   1. applies the constructive operator Apply(pre, op) and compares the  *)
(*      outcome with what was logged, facet by facet;                      *)
(*   2. evaluates the declarative step properties Cxx_Step on the logged   *)
(*      step and the state properties on the logged state;                 *)
(*   3. evaluates the structural predicates (list/table hook) on the log;  *)
(*   4. ADOPTS the logged state, so that one discrepancy does not hide the *)
(*      rest of the trace (every later step is checked against the state   *)
(*      the code really was in).                                           *)
(* Every failed comparison is printed as  <<"BAD", line, property, facet>> *)
(* and counted; tools/check.py turns them into VIOLATION lines.            *)
(* Crash events (an injected panic fired) are checked against CrashOK,     *)
(* the consistency the property C16 demands, instead of Apply.             *)
(***************************************************************************)
EXTENDS LruMem, Json, IOUtils

Rec == ndJsonDeserialize(IOEnv.TRACE)

VARIABLES l,        \* next line of the trace
          cs,       \* cache id -> adopted cache record
          last,     \* cache id -> the raw logged state of that cache
          gh,       \* cache id -> ghost history (C13)
          stale,    \* cache id -> keys whose recorded size may lag (crashed mutate)
          taint,    \* "none" | "forget" | "crash": what this segment did that may leak
          broken,   \* the logged structure was corrupt: nothing more can be concluded
                    \* from this segment (the corruption itself has been reported)
          nbad      \* number of failed comparisons so far

tvars == <<l, cs, last, gh, stale, taint, broken, nbad>>

CIds == 1..4

ToSet(q) == {q[i] : i \in DOMAIN q}

DeadSt == [alive |-> FALSE, trav |-> TRUE, ord |-> <<>>, len |-> 0, cur |-> 0, max |-> 0,
           cap |-> 0, tbl |-> "", slots |-> <<>>]

-----------------------------------------------------------------------------
(* reading an event *)

ArgOf(e) == OpRec(e.a.op, e.a.k, e.a.kh, e.a.vs, e.a.n, ToSet(e.a.keep), e.a.w, e.a.fl)

RecAt(st, i) == IF i <= Len(st.hook.fwd) THEN st.hook.fwd[i][2] ELSE -1

PostOf(st) ==
    IF ~st.alive THEN Dead
    ELSE [alive |-> TRUE,
          ord   |-> [i \in DOMAIN st.ord |->
                        Ent(st.ord[i][1], st.ord[i][2], st.ord[i][3], RecAt(st, i))],
          cur |-> st.cur, max |-> st.max, b |-> st.hook.b,
          t |-> FullCap(st.hook.b) - st.cap]

FreshOf(st) ==
    LET F == {i \in DOMAIN st.marks : st.marks[i][1] = AK \/ st.marks[i][2] = AV} IN
    IF F = {} THEN 0 ELSE st.ord[CHOOSE i \in F : TRUE][1]

(* the objects now stored, as identity markers *)
StoredObjs(st) == UNION {{st.marks[i][1], st.marks[i][2]} : i \in DOMAIN st.marks}

SumEs(rows) == LET RECURSIVE S(_)
                    S(i) == IF i > Len(rows) THEN 0 ELSE rows[i][4] + S(i + 1)
                IN S(1)

SumSizes(fwd) == LET RECURSIVE S(_)
                     S(i) == IF i > Len(fwd) THEN 0 ELSE fwd[i][2] + S(i + 1)
                 IN S(1)

(* C07: the list / table structure reported by the hook and the public    *)
(* traversals.  fwd nodes are <<bucket, recorded size, link to the more   *)
(* recent neighbour, link to the less recent neighbour>>, -1 = the seal,  *)
(* -2 = a pointer that is neither the seal nor an occupied bucket.        *)
WellFormed(st) ==
    LET h  == st.hook
        n  == h.items
        fb == [i \in DOMAIN h.fwd |-> h.fwd[i][1]]
        ks == [i \in DOMAIN st.ord |-> st.ord[i][1]]
    IN /\ st.trav /\ h.fc /\ h.bc
       /\ Len(h.fwd) = n /\ Len(h.bwd) = n /\ Len(st.ord) = n /\ st.len = n
       /\ st.is_empty = (n = 0)
       /\ fb = RevSeq(h.bwd)
       /\ Len(h.full) = n /\ ToSet(fb) = ToSet(h.full) /\ Cardinality(ToSet(fb)) = n
       /\ \A i \in DOMAIN h.fwd :
             /\ h.fwd[i][4] = (IF i = 1 THEN -1 ELSE fb[i - 1])
             /\ h.fwd[i][3] = (IF i = n THEN -1 ELSE fb[i + 1])
       /\ h.sp = (IF n = 0 THEN -1 ELSE fb[1])
       /\ h.sn = (IF n = 0 THEN -1 ELSE fb[n])
       /\ st.nb = fb /\ st.pb = fb         \* iterated entry = looked-up entry = list node
       /\ st.rev = RevSeq(ks) /\ st.keys = ks /\ st.vals_ok
       /\ st.lru = (IF n = 0 THEN 0 ELSE ks[1])
       /\ st.mru = (IF n = 0 THEN 0 ELSE ks[n])
       /\ h.cur = st.cur /\ h.max = st.max /\ h.cap = st.cap
       /\ st.dead = 0

SlotsOf(st) == [i \in DOMAIN st.ord |-> <<st.ord[i][1], IF i <= Len(st.nb) THEN st.nb[i] ELSE -9>>]

(* C07: an entry changes its slot only when the table was replaced *)
SlotStable(lst, st) ==
    (lst.alive /\ st.alive /\ lst.tbl = st.hook.tbl /\ lst.tbl # "") =>
        \A i \in DOMAIN lst.slots : \A j \in DOMAIN st.ord :
            (lst.slots[i][1] = st.ord[j][1] /\ j <= Len(st.nb)
             /\ st.marks[j][1] = MK(st.ord[j][1]))
                => lst.slots[i][2] = st.nb[j]

Remember(st) ==
    IF ~st.alive THEN DeadSt
    ELSE [alive |-> TRUE, trav |-> st.trav, ord |-> st.ord, len |-> st.len, cur |-> st.cur,
          max |-> st.max, cap |-> st.cap, tbl |-> st.hook.tbl, slots |-> SlotsOf(st)]

ProbesOK(e) ==
    LET present == {e.st.ord[i][1] : i \in DOMAIN e.st.ord} IN
    \A i \in DOMAIN e.probe :
        LET p == e.probe[i]  f == IF p[1] \in present THEN 1 ELSE 0
        IN p[2] = f /\ p[3] = f /\ p[4] = f /\ p[5] = f

-----------------------------------------------------------------------------
(* the logged step as a step record *)

EvictedOf(pre, a, post, ret) ==
    LET asked == AskedOut(pre, a, [ret |-> ret])
    IN SelectSeq(pre.ord, LAMBDA en : en.k \notin KeysOf(post.ord) /\ en.k \notin asked
                                      /\ ~(a.op = "insert" /\ en.k = a.k))

StepOf(pre, a, e, lst) ==
    LET post  == PostOf(e.st)
        fresh == FreshOf(e.st)
        after == StoredObjs(e.st)
        dr    == ToSet(e.dropped)
        hd    == ToSet(e.handed)
        before == MarkersOf(pre.ord) \cup ArgObjs(a)
    IN [s |-> post, ret |-> e.ret, ev |-> EvictedOf(pre, a, post, e.ret),
        dropped |-> dr, handed |-> hd,
        leaked |-> before \ (after \cup dr \cup hd),
        after |-> after,
        fresh |-> fresh, hashmax |-> e.counts.hash,
        \* an insertion rebuilt the table iff the table allocation is a different one
        \* (the bucket count may stay the same when only tombstones are purged)
        grew |-> (a.op \in {"insert", "try_insert"} /\ post.alive /\ lst.alive
                  /\ lst.tbl # e.st.hook.tbl),
        rebuilt |-> FALSE]

(* the specification's outcome that best explains the logged geometry *)
Expected(pre, a, post, ret) ==
    LET all   == Apply(pre, a)
        cands == {o \in all : o.s.b = post.b /\ o.s.t = post.t}
        best  == {o \in cands : o.ret.tag = ret.tag}
    IN IF best # {} THEN CHOOSE o \in best : TRUE
       ELSE IF cands # {} THEN CHOOSE o \in cands : TRUE ELSE CHOOSE o \in all : TRUE

ErrTags == {"EntryTooLarge", "WouldEjectLru", "OccupiedEntry"}
RetOwner(op, tag, tag2) ==
    CASE op \in {"insert", "try_insert"} ->
            IF tag \in ErrTags \/ tag2 \in ErrTags THEN {"C10"} ELSE {"C04"}
      [] op \in {"get", "get_entry", "peek", "peek_entry", "contains", "remove",
                 "remove_entry", "touch"} -> {"C04"}
      [] op \in {"get_lru", "peek_lru", "peek_mru", "remove_lru", "remove_mru", "debug"} -> {"C05"}
      [] op \in {"set_max_size", "clear"} -> {"C03"}
      [] op = "mutate" -> {"C11"}
      [] op = "retain" -> {"C15"}
      [] op \in CapacityOps \cup {"capacity"} -> {"C13"}
      [] op \in {"len", "is_empty", "current_size"} -> {"C02"}
      [] op = "max_size" -> {"C01"}
      [] op = "hasher" -> {"C19"}
      [] op \in IterKinds -> {"C12"}
      [] OTHER -> {"C04"}

(* <<property, facet>> pairs that fail for an ordinary (non-crash) call *)
(* Which of the two equal keys survives a replacing insert (the stored one or  *)
(* the passed one) is stated by no property: both objects are named alike     *)
(* before identities are compared.                                             *)
NormObjs(a, pre, objs) ==
    IF a.op = "insert" /\ Present(pre, a.k)
    THEN {IF m = AK THEN MK(a.k) ELSE m : m \in objs} ELSE objs

(* The step properties presuppose a legal state before the call; an illegal    *)
(* one was reported when it arose and says nothing about the next call.        *)
PreOK(pre) == C01_Bound(pre) /\ pre.cur = SumRec(pre.ord) /\ C04_NoDup(pre)

CallBad(pre, a, e, g, stl, lst) ==
    LET post == PostOf(e.st)
        x    == StepOf(pre, a, e, lst)
        o    == Expected(pre, a, post, e.ret)
        sameKeys == KeysOf(o.s.ord) = KeysOf(post.ord)
        \* a different key set is a root cause; what depends on the content is only
        \* compared when the content agrees, so that no consequence is reported as a
        \* violation of a property that holds
        replaced == IF a.op = "insert" /\ Present(pre, a.k) THEN {a.k} ELSE {}
        sameContent == sameKeys /\ \A i \in DOMAIN post.ord :
                           LET en == post.ord[i] IN
                           (en.k \in replaced \/ EntOf(o.s, en.k).kh = en.kh) /\ EntOf(o.s, en.k).vs = en.vs
        forgot == a.op \in IterKinds /\ a.fl
        StepFacets == {"order", "keyset", "stored_sizes", "recorded_size", "current_size", "max_size",
                       "geometry", "alive", "ret", "dropped", "handed", "leaked", "fresh", "hashes",
                       "C02_Step", "C03_Step", "C04_Step", "C05_Step", "C06_Step", "C10_Step",
                       "C11_Step", "C12_Step", "C13_Step", "C13_Virgin", "shrink_raises",
                       "shrink_raises_with_tombstones", "C15_Step", "C19_Step", "C20_Step"}
        Guard(S) == IF PreOK(pre) THEN S ELSE {pf \in S : pf[2] \notin StepFacets}
    IN Guard(
    \* 1. constructive operator vs. log
       {<<"C05", "order">>    : z \in {1} \cap (IF sameKeys /\ KeySeq(o.s.ord) # KeySeq(post.ord) THEN {1} ELSE {})}
    \* entries that left / stayed against the specification: an operation that is
    \* entitled to evict and succeeded owes them to C03; retain and the iterators to
    \* their own properties; anywhere else an entry that vanished was LOST, which the
    \* map property C04 forbids (and C03: nothing leaves without being asked for)
    \cup {<<p, "keyset">>     : p \in IF sameKeys THEN {} ELSE
                                  IF a.op \in EvictingOps /\ Succeeded(a, [ret |-> e.ret])
                                  THEN {"C03"} \cup (IF a.op = "mutate" THEN {"C11"} ELSE {})
                                  ELSE IF a.op = "retain" THEN {"C15"}
                                  ELSE IF a.op \in IterKinds THEN {"C12"} ELSE {"C04", "C03"}}
    \cup {<<p, "stored_sizes">> : p \in IF sameKeys /\ \E i \in DOMAIN post.ord :
                                           LET en == post.ord[i] IN
                                           \/ (en.k \notin replaced /\ EntOf(o.s, en.k).kh # en.kh)
                                           \/ EntOf(o.s, en.k).vs # en.vs
                                       THEN (IF a.op = "mutate" THEN {"C11"} ELSE {"C04"}) ELSE {}}
    \cup {<<p, "recorded_size">> : p \in IF sameKeys /\ \E i \in DOMAIN post.ord :
                                           EntOf(o.s, post.ord[i].k).rec # post.ord[i].rec
                                        THEN {"C02"} \cup (IF a.op = "mutate" THEN {"C11"} ELSE {})
                                        ELSE {}}
    \cup {<<p, "current_size">> : p \in IF sameContent /\ o.s.cur # post.cur
                                       THEN {"C02"} \cup (IF a.op = "mutate" THEN {"C11"} ELSE {})
                                       ELSE {}}
    \cup {<<"C01", "max_size">>   : z \in IF o.s.max # post.max THEN {1} ELSE {}}
    \* table geometry is C13's business for the capacity operations and for insertions
    \* (growth law); what removals, clear or drain do to it no listed property states
    \cup {<<"C13", "geometry">>   : z \in IF sameKeys /\ post.alive
                                            /\ a.op \in CapacityOps \cup {"insert", "try_insert"}
                                            /\ (o.s.b # post.b \/ o.s.t # post.t) THEN {1} ELSE {}}
    \cup {<<p, "alive">>          : p \in IF o.s.alive # post.alive THEN {"C12"} ELSE {}}
    \cup {<<p, "ret">>            : p \in IF sameKeys /\ o.ret # e.ret
                                         THEN RetOwner(a.op, o.ret.tag, e.ret.tag) ELSE {}}
    \* WHICH objects were dropped / handed back is stated by the property that owns
    \* the call's result; C06 itself is the conservation law C06_Step below
    \cup {<<p, "dropped">>        : p \in IF sameKeys /\ NormObjs(a, pre, o.dropped) # NormObjs(a, pre, x.dropped)
                                         THEN RetOwner(a.op, o.ret.tag, e.ret.tag) ELSE {}}
    \cup {<<p, "handed">>         : p \in IF sameKeys /\ o.handed # x.handed
                                         THEN RetOwner(a.op, o.ret.tag, e.ret.tag) ELSE {}}
    \cup {<<p, "leaked">>         : p \in IF sameKeys /\ o.leaked # x.leaked
                                         THEN {"C06"} \cup (IF forgot THEN {"C17"} ELSE {}) ELSE {}}
    \cup {<<p, "fresh">>          : p \in IF sameKeys /\ post.alive /\ o.fresh # x.fresh THEN {"C06", "C04"} ELSE {}}
    \cup {<<"C20", "hashes">>     : z \in IF e.counts.hash > o.hashmax THEN {1} ELSE {}}
    \* 2. declarative properties on the logged step / state
    \cup {<<"C02", "C02_Step">>  : z \in IF C02_Step(pre, a, x) THEN {} ELSE {1}}
    \cup {<<"C03", "C03_Step">>  : z \in IF C03_Step(pre, a, x) THEN {} ELSE {1}}
    \cup {<<"C04", "C04_Step">>  : z \in IF C04_Step(pre, a, x) THEN {} ELSE {1}}
    \cup {<<"C05", "C05_Step">>  : z \in IF C05_Step(pre, a, x) THEN {} ELSE {1}}
    \cup {<<p, "C06_Step">>      : p \in IF C06_Step(pre, a, x) THEN {} ELSE
                                         {"C06"} \cup (IF forgot THEN {"C17"} ELSE {})}
    \cup {<<"C10", "C10_Step">>  : z \in IF C10_Step(pre, a, x) THEN {} ELSE {1}}
    \cup {<<"C11", "C11_Step">>  : z \in IF C11_Step(pre, a, x) THEN {} ELSE {1}}
    \cup {<<p, "C12_Step">>      : p \in IF C12_Step(pre, a, x) THEN {} ELSE
                                         {"C12"} \cup (IF forgot THEN {"C17"} ELSE {})}
    \cup {<<"C13", "C13_Step">>  : z \in IF C13_Step(pre, a, x) THEN {} ELSE {1}}
    \cup {<<"C13", "C13_Virgin">> : z \in IF C13_Virgin(pre, a, x, g) THEN {} ELSE {1}}
    \* a shrink that raises the capacity: when the table had tombstones and the
    \* result is exactly the fresh table the constructive operator predicts, this
    \* is finding F5 (its own facet, so that any other rise stays distinguishable)
    \cup {<<"C13", IF pre.t > 0 /\ o.s = post THEN "shrink_raises_with_tombstones"
                                             ELSE "shrink_raises">>
             : z \in IF C13_ShrinkNeverRaises(pre, a, x) THEN {} ELSE {1}}
    \cup {<<"C15", "C15_Step">>  : z \in IF C15_Step(pre, a, x) THEN {} ELSE {1}}
    \cup {<<"C19", "C19_Step">>  : z \in IF C19_Step(pre, a, x) THEN {} ELSE {1}}
    \cup {<<"C20", "C20_Step">>  : z \in IF e.counts.hash <= HashBound(pre, a, x) THEN {} ELSE {1}}
    \cup {<<"C01", "C01_Bound">> : z \in IF C01_Bound(post) THEN {} ELSE {1}}
    \* the same bound on what is really held (entry_size of every stored pair), unless a
    \* crashed mutate legitimately left a recorded size behind (C16 speaks of recorded sizes)
    \cup {<<"C01", "held_bound">> : z \in IF stl = {} /\ post.alive /\ ~IsBig(post.max)
                                             /\ SumEs(e.st.ord) > post.max THEN {1} ELSE {}}
    \cup {<<"C02", "C02_Exact">> : z \in IF C02_Exact(post, stl) THEN {} ELSE {1}}
    \cup {<<"C02", "entry_size">> : z \in IF \A i \in DOMAIN e.st.ord :
                                              post.ord[i].k \in stl \/ e.st.ord[i][4] = post.ord[i].rec
                                          THEN {} ELSE {1}}
    \cup {<<"C04", "C04_NoDup">> : z \in IF C04_NoDup(post) THEN {} ELSE {1}}
    \cup {<<"C13", "C13_CapSane">> : z \in IF C13_CapSane(post) THEN {} ELSE {1}}
    \* 3. structure, frame, identity
    \cup {<<p, "WellFormed">>    : p \in IF ~post.alive \/ WellFormed(e.st) THEN {} ELSE
                                         {"C07"} \cup (IF forgot THEN {"C17"} ELSE {})}
    \cup {<<"C02", "sum_recorded">> : z \in IF ~post.alive \/ SumSizes(e.st.hook.fwd) = e.st.cur THEN {} ELSE {1}}
    \cup {<<"C07", "SlotStable">> : z \in IF SlotStable(lst, e.st) THEN {} ELSE {1}}
    \cup {<<"C04", "probes">>    : z \in IF ~post.alive \/ ProbesOK(e) THEN {} ELSE {1}}
    \cup {<<"C19", "probe_wrote">> : z \in IF e.fp2 = e.fp THEN {} ELSE {1}}
    \cup {<<"C19", "fingerprint">> : z \in IF a.op \in ReadOps /\ e.fp # e.pre_fp THEN {1} ELSE {}}
    \cup {<<"C14", "frame">>     : z \in IF \A i \in DOMAIN e.others : e.others[i][2] THEN {} ELSE {1}}
    \cup {<<p, "anomaly">>       : p \in IF e.anom = <<>> THEN {} ELSE
                                         {"C06"} \cup (IF forgot THEN {"C17"} ELSE {})})

(* C16: what must hold after a panic inside user code *)
CrashBad(pre, a, e, stl) ==
    LET post == PostOf(e.st)
        kind == e.panic.kind
        callsBefore == IF a.op = "retain" THEN ToSet(e.ret.seq) ELSE {}
    IN
       {<<"C16", "WellFormed">>   : z \in IF ~post.alive \/ WellFormed(e.st) THEN {} ELSE {1}}
    \cup {<<"C16", "sum_recorded">> : z \in IF ~post.alive \/ SumSizes(e.st.hook.fwd) = e.st.cur THEN {} ELSE {1}}
    \cup {<<"C16", "NoDup">>      : z \in IF C04_NoDup(post) THEN {} ELSE {1}}
    \cup {<<"C16", "probes">>     : z \in IF ~post.alive \/ ProbesOK(e) THEN {} ELSE {1}}
    \cup {<<"C16", "anomaly">>    : z \in IF e.anom = <<>> THEN {} ELSE {1}}
    \cup {<<"C16", "alive">>      : z \in IF post.alive = pre.alive THEN {} ELSE {1}}
    \cup {<<"C16", "invented">>   : z \in IF \A i \in DOMAIN e.st.marks :
                                              LET k == e.st.ord[i][1] IN
                                              \/ (e.st.marks[i] = <<MK(k), MV(k)>> /\ Present(pre, k))
                                              \/ (e.st.marks[i] = <<AK, AV>> /\ a.op \in {"insert", "try_insert"} /\ k = a.k)
                                          THEN {} ELSE {1}}
    \cup {<<"C16", "max_size">>   : z \in IF post.max = pre.max \/ a.op = "set_max_size" THEN {} ELSE {1}}
    \cup {<<"C16", "frame">>      : z \in IF \A i \in DOMAIN e.others : e.others[i][2] THEN {} ELSE {1}}
    \cup {<<"C16", "closure_bound">> : z \in IF kind = "closure" /\ ~C01_Bound(post) THEN {1} ELSE {}}
    \cup {<<"C16", "closure_lost">> : z \in IF kind = "closure" /\
                                              ~(KeysOf(pre.ord) \ KeysOf(post.ord) \subseteq
                                                   (IF a.op = "retain" THEN callsBefore \ a.keep ELSE {}))
                                           THEN {1} ELSE {}}
    \* retain / mutate never change the relative order of what remains - also when their
    \* closure panics (C05 says never; C16 says nothing else is lost)
    \cup {<<p, "closure_order">> : p \in IF kind = "closure" /\
                                             Rel(pre.ord, KeysOf(post.ord)) # KeySeq(post.ord)
                                          THEN {"C16", "C05"} ELSE {}}
    \* clone works through &self: even when it unwinds, the source must be untouched (C19)
    \cup {<<p, "clone_source">> : p \in IF a.op = "clone" /\ (post # pre \/ e.fp # e.pre_fp)
                                        THEN {"C16", "C19"} ELSE {}}

(* C17: what must hold right after an iterator was leaked with mem::forget. *)
(* Deliberately declarative: the property does not say WHAT remains in a    *)
(* drained cache, only that it is a valid cache, that nothing it yielded is *)
(* still inside, and that no object is in two places.                       *)
ForgetBad(pre, a, e) ==
    LET post == PostOf(e.st)
        x    == StepOf(pre, a, e, DeadSt)
        ys   == e.ret.seq
        yielded == ToSet(ys) \ {0}
        \* neither yielded nor passed over by an nth / nth_back (those were dropped)
        rest == IterRest(pre.ord, a.w)
    IN
       {<<"C17", "yield_seq">> : z \in IF ys = IterYields(pre.ord, a.w) THEN {} ELSE {1}}
    \cup {<<"C17", "WellFormed">> : z \in IF ~post.alive \/ WellFormed(e.st) THEN {} ELSE {1}}
    \cup {<<"C17", "anomaly">>   : z \in IF e.anom = <<>> THEN {} ELSE {1}}
    \cup {<<"C17", "alive">>     : z \in IF post.alive = (a.op \notin OwningKinds) THEN {} ELSE {1}}
    \cup {<<"C17", "borrow_changed">> : z \in IF a.op \in BorrowingKinds /\ (post # pre \/ e.fp # e.pre_fp) THEN {1} ELSE {}}
    \* C02 speaks of "every point": a drained cache whose current_size is not the sum of what it
    \* holds violates C02 as well, whether or not the drain's destructor ran
    \cup {<<p, "sum_recorded">> : p \in IF ~post.alive \/ SumSizes(e.st.hook.fwd) = e.st.cur THEN {} ELSE {"C17", "C02"}}
    \cup {<<"C17", "drained_cache">> : z \in
             IF a.op = "drain" /\ ~( /\ post.max = pre.max
                                     /\ C01_Bound(post) /\ C04_NoDup(post)
                                     /\ post.ord = SelectSeq(rest, LAMBDA en : en.k \in KeysOf(post.ord))
                                     /\ \A i \in DOMAIN e.st.marks :
                                           e.st.marks[i] = <<MK(e.st.ord[i][1]), MV(e.st.ord[i][1])>> )
             THEN {1} ELSE {}}
    \cup {<<"C17", "conservation">> : z \in
             IF /\ x.dropped \cap x.handed = {}
                /\ StoredObjs(e.st) \cap (x.dropped \cup x.handed) = {}
                /\ (a.op \in BorrowingKinds => x.dropped = {} /\ x.handed = {})
                /\ (a.op \notin BorrowingKinds =>
                       x.handed \cup x.dropped \subseteq MarkersOf(pre.ord))
                /\ (a.op \in {"drain", "into_iter"} =>
                       x.handed = MarkersOf(SelectSeq(pre.ord, LAMBDA en : en.k \in yielded)))
             THEN {} ELSE {1}}
    \cup {<<"C17", "probes">>    : z \in IF ~post.alive \/ ProbesOK(e) THEN {} ELSE {1}}
    \cup {<<"C17", "frame">>     : z \in IF \A i \in DOMAIN e.others : e.others[i][2] THEN {} ELSE {1}}

(* After a forgotten iterator / an injected panic in this segment, every   *)
(* later discrepancy is a consequence of how the code coped with it: "the   *)
(* cache can still be used" is what C16 / C17 demand, so the discrepancy    *)
(* belongs to them and to no other property.                                *)
Retaint(bad, tn) ==
    IF tn = "none" THEN bad
    ELSE LET towner == IF tn = "forget" THEN "C17" ELSE "C16" IN
         UNION { IF pf[2] = "shrink_raises_with_tombstones" THEN {pf}      \* finding F5 stays with C13
                 ELSE IF pf[2] = "C01_Bound"
                      \* C01 speaks of every call that returns; C16 demands the bound only after
                      \* closure panics (facet closure_bound of the crash event itself)
                      THEN {pf}
                 ELSE IF pf[2] \in {"sum_recorded", "clone_source", "closure_order"}
                      \* C02 / C19 speak of every point / every &self call, C16 / C17 of the same facts
                      THEN {pf, <<towner, pf[2]>>}
                 ELSE {<<towner, pf[2]>>} : pf \in bad }

-----------------------------------------------------------------------------

Fn(f, c, v) == [f EXCEPT ![c] = v]

Report(line, bad) ==
    IF bad = {} THEN TRUE
    ELSE PrintT(<<"BAD", ToJson([line |-> line, i |-> Rec[line].i, op |-> Rec[line].a.op,
                                 bad |-> bad])>>)

TraceInit ==
    /\ l = 1
    /\ cs = [c \in CIds |-> Dead]
    /\ last = [c \in CIds |-> DeadSt]
    /\ gh = [c \in CIds |-> GhostInit(0)]
    /\ stale = [c \in CIds |-> {}]
    /\ taint = "none"
    /\ broken = FALSE
    /\ nbad = 0

(* a reset line: all caches were dropped; nothing may be alive unless the   *)
(* segment leaked on purpose (forgotten iterator, injected panic)           *)
ResetStep(e) ==
    LET bad == Retaint({<<"C06", "leak_at_end">> : z \in IF e.fin.live = 0 \/ e.leak_ok THEN {} ELSE {1}}
               \cup {<<"C06", "anomaly_at_end">> : z \in IF e.fin.anom = <<>> THEN {} ELSE {1}}, taint)
    IN /\ (IF bad = {} THEN TRUE
           ELSE PrintT(<<"BAD", ToJson([line |-> l, i |-> 0, op |-> "reset", bad |-> bad])>>))
       /\ cs' = [c \in CIds |-> Dead]
       /\ last' = [c \in CIds |-> DeadSt]
       /\ gh' = [c \in CIds |-> GhostInit(0)]
       /\ stale' = [c \in CIds |-> {}]
       /\ taint' = "none" /\ broken' = FALSE
       /\ nbad' = nbad + Cardinality(bad)

NewStep(e) ==
    LET c == e.c  a == ArgOf(e)  post == PostOf(e.st)
        want == NewCache(a.n, a.kh)
        bad == {<<"C13", "new_state">> : z \in IF post = want THEN {} ELSE {1}}
               \cup {<<"C07", "WellFormed">> : z \in IF WellFormed(e.st) THEN {} ELSE {1}}
               \cup {<<"C06", "anomaly">> : z \in IF e.anom = <<>> THEN {} ELSE {1}}
    IN /\ Report(l, bad)
       /\ cs' = Fn(cs, c, post) /\ last' = Fn(last, c, Remember(e.st))
       /\ gh' = Fn(gh, c, GhostInit(a.kh)) /\ stale' = Fn(stale, c, {})
       /\ taint' = taint /\ broken' = broken
       /\ nbad' = nbad + Cardinality(bad)

DropStep(e) ==
    LET c == e.c  pre == cs[c]
        bad == {<<"C06", "dropped">> : z \in IF ToSet(e.dropped) = MarkersOf(pre.ord) THEN {} ELSE {1}}
               \cup {<<"C06", "anomaly">> : z \in IF e.anom = <<>> THEN {} ELSE {1}}
               \cup {<<"C14", "frame">> : z \in IF \A i \in DOMAIN e.others : e.others[i][2] THEN {} ELSE {1}}
    IN /\ Report(l, Retaint(bad, taint))
       /\ cs' = Fn(cs, c, Dead) /\ last' = Fn(last, c, DeadSt)
       /\ gh' = gh /\ stale' = Fn(stale, c, {})
       /\ taint' = taint /\ broken' = broken
       /\ nbad' = nbad + Cardinality(bad)

(* A clone of a value may have another heap size than the original (a String with spare     *)
(* capacity clones to a tight one).  The clone copies the RECORDED sizes, so entries whose   *)
(* value changed size in cloning are treated like those of a crashed mutate: their recorded  *)
(* size may lag (C02 speaks of values whose size changes only inside mutate).                *)
MaskVs(s) == [s EXCEPT !.ord = [i \in DOMAIN s.ord |-> [s.ord[i] EXCEPT !.vs = 0]]]
ShiftedKeys(src, dst) == {dst.ord[i].k : i \in {j \in DOMAIN dst.ord :
                                                  j > Len(src.ord) \/ dst.ord[j].vs # src.ord[j].vs}}

CloneStep(e) ==
    LET c == e.c  d == e.d  pre == cs[c]  post == PostOf(e.st)  dpost == PostOf(e.dst)
        want == CloneOf(pre)
        bad == {<<"C14", "clone_state">> : z \in IF MaskVs(dpost) = MaskVs(want) THEN {} ELSE {1}}
               \cup {<<"C14", "C14_Clone">> : z \in IF C14_Clone(MaskVs(pre), MaskVs(dpost)) THEN {} ELSE {1}}
               \* the same entries in another order: the order of last access is lost (C05 as well)
               \cup {<<"C05", "clone_order">> : z \in IF KeysOf(dpost.ord) = KeysOf(pre.ord) /\ NoDup(dpost.ord)
                                                          /\ KeySeq(dpost.ord) # KeySeq(pre.ord) THEN {1} ELSE {}}
               \cup {<<"C14", "clone_marks">> : z \in IF \A i \in DOMAIN e.dst.marks :
                         e.dst.marks[i] = <<<<"CK", e.dst.ord[i][1]>>, <<"CV", e.dst.ord[i][1]>>>>
                         THEN {} ELSE {1}}
               \cup {<<"C14", "clone_entry_size">> : z \in IF \A i \in DOMAIN e.dst.ord :
                         dpost.ord[i].k \in stale[c] \cup ShiftedKeys(pre, dpost)
                         \/ e.dst.ord[i][4] = dpost.ord[i].rec THEN {} ELSE {1}}
               \cup {<<"C07", "WellFormed">> : z \in IF WellFormed(e.dst) /\ WellFormed(e.st) THEN {} ELSE {1}}
               \cup {<<"C19", "source_changed">> : z \in IF post = pre /\ e.fp = e.pre_fp THEN {} ELSE {1}}
               \cup {<<"C14", "frame">> : z \in IF \A i \in DOMAIN e.others : e.others[i][2] THEN {} ELSE {1}}
               \cup {<<"C06", "clone_drops">> : z \in IF e.dropped = <<>> /\ e.anom = <<>> THEN {} ELSE {1}}
               \cup {<<"C20", "hashes">> : z \in IF e.counts.hash <= 2 + Len(pre.ord) THEN {} ELSE {1}}
    IN /\ Report(l, bad)
       /\ cs' = [cs EXCEPT ![c] = post, ![d] = dpost]
       /\ last' = [last EXCEPT ![c] = Remember(e.st), ![d] = Remember(e.dst)]
       /\ gh' = Fn(gh, d, gh[c]) /\ stale' = Fn(stale, d, stale[c] \cup ShiftedKeys(pre, dpost))
       /\ taint' = taint /\ broken' = broken
       /\ nbad' = nbad + Cardinality(bad)

(* d.clone_from(&c): the content of d becomes that of c (C14), c itself is only read (C19), *)
(* everything d held before is dropped exactly once (C06).  How much capacity d ends up    *)
(* with is left open: a specialised clone_from may keep d's own allocation.                *)
CloneFromStep(e) ==
    LET c == e.c  d == e.d  pre == cs[c]  post == PostOf(e.st)  dpost == PostOf(e.dst)  old == cs[d]
        oldObjs == UNION {{<<"XK", old.ord[i].k * 100 + d>>, <<"XV", old.ord[i].k * 100 + d>>}
                          : i \in DOMAIN old.ord}
        bad == {<<"C14", "clone_state">> : z \in IF dpost.alive /\ MaskVs(dpost).ord = MaskVs(pre).ord /\ dpost.cur = pre.cur
                                                   /\ dpost.max = pre.max /\ Cap(dpost) >= Len(dpost.ord)
                                               THEN {} ELSE {1}}
               \cup {<<"C01", "C01_Bound">> : z \in IF C01_Bound(dpost) THEN {} ELSE {1}}
               \cup {<<"C05", "clone_order">> : z \in IF KeysOf(dpost.ord) = KeysOf(pre.ord) /\ NoDup(dpost.ord)
                                                          /\ KeySeq(dpost.ord) # KeySeq(pre.ord) THEN {1} ELSE {}}
               \cup {<<"C14", "clone_marks">> : z \in IF \A i \in DOMAIN e.dst.marks :
                         e.dst.marks[i] = <<<<"CK", e.dst.ord[i][1]>>, <<"CV", e.dst.ord[i][1]>>>>
                         THEN {} ELSE {1}}
               \cup {<<"C07", "WellFormed">> : z \in IF WellFormed(e.dst) /\ WellFormed(e.st) THEN {} ELSE {1}}
               \cup {<<"C19", "source_changed">> : z \in IF post = pre /\ e.fp = e.pre_fp THEN {} ELSE {1}}
               \cup {<<"C14", "frame">> : z \in IF \A i \in DOMAIN e.others : e.others[i][2] THEN {} ELSE {1}}
               \cup {<<"C06", "clone_from_drops">> : z \in IF ToSet(e.dropped) = oldObjs /\ e.anom = <<>>
                                                        THEN {} ELSE {1}}
               \cup {<<"C20", "hashes">> : z \in IF e.counts.hash <= 2 + Len(pre.ord) THEN {} ELSE {1}}
    IN /\ Report(l, Retaint(bad, taint))
       /\ cs' = [cs EXCEPT ![c] = post, ![d] = dpost]
       /\ last' = [last EXCEPT ![c] = Remember(e.st), ![d] = Remember(e.dst)]
       /\ gh' = Fn(gh, d, [gh[c] EXCEPT !.peak = Max2(gh[c].peak, gh[d].peak), !.req = Max2(gh[c].req, gh[d].req)])
       /\ stale' = Fn(stale, d, stale[c] \cup ShiftedKeys(pre, dpost))
       /\ taint' = taint /\ broken' = broken
       /\ nbad' = nbad + Cardinality(bad)

(* a `sync` event: the runner replayed an already validated prefix silently and reports *)
(* the state it led to; the specification adopts it (only the structure is checked)     *)
SyncStep(e) ==
    LET c == e.c  post == PostOf(e.st)
        bad == {<<"C07", "WellFormed">> : z \in IF ~post.alive \/ WellFormed(e.st) THEN {} ELSE {1}}
    IN /\ Report(l, bad)
       /\ cs' = Fn(cs, c, post) /\ last' = Fn(last, c, Remember(e.st))
       /\ gh' = Fn(gh, c, [GhostInit(0) EXCEPT !.peak = Len(post.ord), !.req = Cap(post), !.virgin = FALSE])
       /\ stale' = Fn(stale, c, {})
       /\ taint' = taint /\ broken' = broken
       /\ nbad' = nbad + Cardinality(bad)

CallStep(e) ==
    LET c == e.c  pre == cs[c]  a == ArgOf(e)  post == PostOf(e.st)
        x == StepOf(pre, a, e, last[c])
        specPanics == a.op \notin {"clone", "clone_from"} /\ \E o \in Apply(pre, a) : o.ret.tag = "panic"
        crashed == e.panic.kind # "none" /\ ~(e.panic.kind = "unexpected" /\ specPanics)
        forgot  == a.op \in IterKinds /\ a.fl /\ ~crashed
        bad0 == IF forgot THEN ForgetBad(pre, a, e) ELSE IF crashed
               THEN (IF e.panic.kind = "unexpected"
                     THEN {<<p, "unexpected_panic">> : p \in RetOwner(a.op, "", "")} ELSE {})
                    \cup CrashBad(pre, a, e, stale[c])
               ELSE CallBad(pre, a, e, gh[c], stale[c], last[c])
                    \cup {<<"C13", "C13_GrowthBound">> : z \in
                             IF C13_GrowthBound(post, GhostNext(gh[c], pre, a, x)) THEN {} ELSE {1}}
        bad == Retaint(bad0, taint)
        st1 == ((stale[c] \cap KeysOf(post.ord)) \ {x.fresh})
               \ (IF a.op = "mutate" /\ ~crashed THEN {a.k} ELSE {})
    IN /\ Report(l, bad)
       /\ cs' = Fn(cs, c, post) /\ last' = Fn(last, c, Remember(e.st))
       /\ gh' = Fn(gh, c, GhostNext(gh[c], pre, a, x))
       /\ stale' = Fn(stale, c, IF crashed /\ a.op = "mutate" THEN st1 \cup {a.k} ELSE st1)
       /\ taint' = IF crashed THEN "crash" ELSE IF forgot THEN "forget" ELSE taint
       /\ broken' = (post.alive /\ ~WellFormed(e.st))
       /\ nbad' = nbad + Cardinality(bad)

TraceNext ==
    /\ l <= Len(Rec)
    /\ l' = l + 1
    /\ LET e == Rec[l] IN
       IF "reset" \in DOMAIN e THEN ResetStep(e)
       ELSE IF broken THEN UNCHANGED <<cs, last, gh, stale, taint, broken, nbad>>
       ELSE IF e.a.op = "sync" THEN SyncStep(e)
       ELSE IF e.a.op = "new" THEN NewStep(e)
       ELSE IF e.a.op = "drop" THEN DropStep(e)
       ELSE IF e.a.op = "clone" /\ e.panic.kind = "none" THEN CloneStep(e)
       ELSE IF e.a.op = "clone_from" /\ e.panic.kind = "none" THEN CloneFromStep(e)
       ELSE CallStep(e)

TraceSpec == TraceInit /\ [][TraceNext]_tvars

(* printed once, in the last state: how far the trace got and how many     *)
(* comparisons failed *)
Done == (l = Len(Rec) + 1) => PrintT(<<"TRACE-DONE", Len(Rec), nbad>>)

=============================================================================
