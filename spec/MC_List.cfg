SPECIFICATION Spec
CONSTANTS
  Keys = {1, 2, 3, 4}
  NS = 4
  MaxT = 5
  MaxLen = 3
  HashFirst = TRUE
  DetachEarly = TRUE
  Crashes = TRUE
INVARIANT MemSafe
INVARIANT WellFormed
INVARIANT Refines
INVARIANT Bounded
INVARIANT IterRefines
CHECK_DEADLOCK FALSE
