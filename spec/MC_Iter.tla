------------------------------- MODULE MC_Iter -------------------------------
(* Iterator sub-machine: every word over Letters (next, next_back, nth(J),  *)
(* nth_back(J)) up to length                                                *)
(* len + MaxWord, all seven iterator kinds, dropped or forgotten, on every  *)
(* recency order of up to |Keys| entries.                                   *)
EXTENDS LruMemModel

IKeys3   == 1..3
IKeys4   == 1..4
IKHeaps  == {0}
IVSizes  == {1}
ILimits  == {UMAX}
IInitCaps == {0}
IAddl    == {}
IOps     == {"insert", "new", "drop"} \cup IterKinds
=============================================================================
