"""Stages beyond the core pipeline (iterators, clones, crashes, pointer-level model,
size algebra, borrow discipline).  Filled in progressively."""


def collect(prop, tier, fnd, cov, ck):
    raise ck.ToolError("no stage built yet for " + prop)


def selftest(ck):
    return 0
