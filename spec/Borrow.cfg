SPECIFICATION EmitSpec
INVARIANT NoMutationWhileLoaned
CHECK_DEADLOCK FALSE
