----------------------------- MODULE LruMemModel -----------------------------
(***************************************************************************)
(* Bounded state machine over the operators of LruMem: a few cache         *)
(* instances, every public operation with every argument from small        *)
(* constant sets as one action.  Used for                                  *)
(*   - model checking the declarative properties against the constructive  *)
(*     operators (MC_*.cfg), and                                           *)
(*   - dumping every transition as JSON for replay on the real code        *)
(*     (MC_Dump*.cfg: VIEW without obs/ghost, ACTION_CONSTRAINT Emit).     *)
(***************************************************************************)
EXTENDS LruMem, Json

CONSTANTS CacheIds,     \* cache instances (1 = the primary one)
          Keys,         \* key ids
          KHeaps,       \* heap sizes of key objects
          VSizes,       \* heap sizes of value objects
          Limits,       \* values for max_size
          InitCaps,     \* with_capacity arguments
          Addl,         \* arguments of reserve / try_reserve / shrink_to
          Ops,          \* names of the enabled operations
          MaxWord,      \* iterator words up to length len + MaxWord
          Letters       \* the letters of iterator words (subset of IterLetters)

VARIABLES cs,           \* cache id -> cache record
          gh,           \* cache id -> ghost history (C13)
          obs           \* observation of the last step

vars == <<cs, gh, obs>>

NoArg(op)      == OpRec(op, 0, 0, 0, 0, {}, <<>>, FALSE)
NoOutcome(s)   == Outcome(s, RTag("unit"), <<>>, {}, 0, 0, FALSE, FALSE)
MkObs(c, a, x, d, ds) == [c |-> c, a |-> a, x |-> x, d |-> d, ds |-> ds]

RECURSIVE WordsOfLen(_)
WordsOfLen(n) == IF n = 0 THEN {<<>>}
                 ELSE {<<h>> \o w : h \in Letters, w \in WordsOfLen(n - 1)}
WordsUpTo(n) == UNION {WordsOfLen(i) : i \in 0..n}

KeyOps1   == {"get", "get_entry", "touch", "peek", "peek_entry", "contains",
              "remove", "remove_entry"}
NullOps   == {"get_lru", "peek_lru", "peek_mru", "remove_lru", "remove_mru", "clear",
              "shrink_to_fit", "len", "is_empty", "current_size", "max_size",
              "capacity", "debug", "hasher"}

OpArgs(s) ==
    {OpRec(op, k, kh, vs, 0, {}, <<>>, FALSE) :
        op \in {"insert", "try_insert"} \cap Ops, k \in Keys, kh \in KHeaps, vs \in VSizes}
    \cup {OpRec(op, k, 0, 0, 0, {}, <<>>, FALSE) : op \in KeyOps1 \cap Ops, k \in Keys}
    \cup {OpRec("mutate", k, 0, vs, 0, {}, <<>>, FALSE) :
            k \in (IF "mutate" \in Ops THEN Keys ELSE {}), vs \in VSizes}
    \cup {NoArg(op) : op \in NullOps \cap Ops}
    \cup {OpRec("set_max_size", 0, 0, 0, m, {}, <<>>, FALSE) :
            m \in (IF "set_max_size" \in Ops THEN Limits ELSE {})}
    \cup {OpRec("retain", 0, 0, 0, 0, keep, <<>>, FALSE) :
            keep \in (IF "retain" \in Ops THEN SUBSET KeysOf(s.ord) ELSE {})}
    \cup {OpRec(op, 0, 0, 0, n, {}, <<>>, FALSE) :
            op \in {"reserve", "shrink_to"} \cap Ops, n \in Addl}
    \cup UNION {{OpRec("try_reserve", 0, 0, 0, n, {}, <<>>, fl) :
                    fl \in (IF IsBig(n) THEN {FALSE} ELSE BOOLEAN)} :
                 n \in (IF "try_reserve" \in Ops THEN Addl ELSE {})}
    \cup {OpRec(kind, 0, 0, 0, 0, {}, w, fl) :
            kind \in IterKinds \cap Ops, w \in WordsUpTo(Len(s.ord) + MaxWord),
            fl \in BOOLEAN}

Init ==
    /\ \E m \in Limits, ic \in InitCaps :
          /\ cs = [c \in CacheIds |-> IF c = 1 THEN NewCache(m, ic) ELSE Dead]
          /\ gh = [c \in CacheIds |-> GhostInit(IF c = 1 THEN ic ELSE 0)]
          /\ obs = MkObs(1, OpRec("new", 0, ic, 0, m, {}, <<>>, FALSE) ,
                         [NoOutcome(NewCache(m, ic)) EXCEPT !.ret = RInt(ic)], 0, Dead)

(* an ordinary call on cache c *)
Call(c) ==
    /\ cs[c].alive
    /\ \E a \in OpArgs(cs[c]) : \E x \in Apply(cs[c], a) :
          /\ cs'  = [cs EXCEPT ![c] = x.s]
          /\ gh'  = [gh EXCEPT ![c] = GhostNext(gh[c], cs[c], a, x)]
          /\ obs' = MkObs(c, a, x, 0, Dead)

(* c.clone() creating cache d *)
CloneCall(c, d) ==
    /\ "clone" \in Ops /\ cs[c].alive /\ ~cs[d].alive /\ c # d
    /\ cs'  = [cs EXCEPT ![d] = CloneOf(cs[c])]
    /\ gh'  = [gh EXCEPT ![d] = gh[c]]
    /\ obs' = MkObs(c, NoArg("clone"),
                    [NoOutcome(cs[c]) EXCEPT !.hashmax = 2 + Len(cs[c].ord), !.rebuilt = TRUE],
                    d, CloneOf(cs[c]))

(* d.clone_from(&c): d becomes what c.clone() would be; everything d held is dropped. *)
(* Objects of the other cache are named <<"XK" / "XV", k * 100 + d>> in the call's   *)
(* frame of reference (the source cache c).                                         *)
OtherObjs(d, o) == UNION {{<<"XK", o[i].k * 100 + d>>, <<"XV", o[i].k * 100 + d>>} : i \in DOMAIN o}

CloneFromCall(c, d) ==
    /\ "clone_from" \in Ops /\ cs[c].alive /\ cs[d].alive /\ c # d
    /\ cs'  = [cs EXCEPT ![d] = CloneOf(cs[c])]
    /\ gh'  = [gh EXCEPT ![d] = gh[c]]
    /\ obs' = MkObs(c, NoArg("clone_from"),
                    [NoOutcome(cs[c]) EXCEPT !.hashmax = 2 + Len(cs[c].ord), !.rebuilt = TRUE,
                                             !.dropped = OtherObjs(d, cs[d].ord)],
                    d, CloneOf(cs[c]))

(* drop(c) *)
DropCall(c) ==
    /\ "drop" \in Ops /\ cs[c].alive
    /\ cs'  = [cs EXCEPT ![c] = Dead]
    /\ gh'  = gh
    /\ obs' = MkObs(c, NoArg("drop"),
                    [NoOutcome(Dead) EXCEPT !.dropped = MarkersOf(cs[c].ord)], 0, Dead)

(* LruCache::with_capacity(m, ic) for the primary cache, once it is gone *)
NewCall ==
    /\ "new" \in Ops /\ ~cs[1].alive
    /\ \E m \in Limits, ic \in InitCaps :
          /\ cs'  = [cs EXCEPT ![1] = NewCache(m, ic)]
          /\ gh'  = [gh EXCEPT ![1] = GhostInit(ic)]
          /\ obs' = MkObs(1, OpRec("new", 0, ic, 0, m, {}, <<>>, FALSE),
                          [NoOutcome(NewCache(m, ic)) EXCEPT !.ret = RInt(ic)], 0, Dead)

Next == \/ \E c \in CacheIds : Call(c) \/ DropCall(c)
        \/ \E c, d \in CacheIds : CloneCall(c, d) \/ CloneFromCall(c, d)
        \/ NewCall

Spec == Init /\ [][Next]_vars

-----------------------------------------------------------------------------
(* what TLC checks *)

TypeOK == \A c \in CacheIds : cs[c].alive \in BOOLEAN /\ cs[c].t >= 0

Inv ==
    \A c \in CacheIds :
        /\ C01_Bound(cs[c])
        /\ C02_Exact(cs[c], {})
        /\ C04_NoDup(cs[c])
        /\ C13_CapSane(cs[c])
        /\ C13_GrowthBound(cs[c], gh[c])

IsCall == obs'.a.op \notin {"new", "drop", "clone", "clone_from"}

(* every transition satisfies every declarative step property *)
StepOK ==
    /\ IsCall => /\ StepProps(cs[obs'.c], obs'.a, obs'.x)
                 /\ C13_Virgin(cs[obs'.c], obs'.a, obs'.x, gh[obs'.c])
                 /\ \A d \in CacheIds \ {obs'.c} : cs'[d] = cs[d]        \* C14: frame
    /\ (obs'.a.op \in {"clone", "clone_from"}) => /\ C14_Clone(cs[obs'.c], cs'[obs'.d])
                                /\ cs'[obs'.c] = cs[obs'.c]
                                /\ \A e \in CacheIds \ {obs'.d} : cs'[e] = cs[e]
    /\ (obs'.a.op = "drop") => \A d \in CacheIds \ {obs'.c} : cs'[d] = cs[d]

StepProp == [][StepOK]_vars

(* C13, "shrink never raises the capacity": holds where tombstones cannot  *)
(* exist (GroupWidth 16, <= 16 buckets); violated in MC_Tomb (finding F5)  *)
ShrinkOK == IsCall => C13_ShrinkNeverRaises(cs[obs'.c], obs'.a, obs'.x)
ShrinkProp == [][ShrinkOK]_vars

-----------------------------------------------------------------------------
(* edge dump for replay: VIEW hides obs and ghost; Emit prints every edge  *)

DumpView == cs
CheckView == <<cs, gh>>       \* obs only feeds the action properties

StateJ(s) == [alive |-> s.alive,
              ord   |-> [i \in DOMAIN s.ord |->
                           <<s.ord[i].k, s.ord[i].kh, s.ord[i].vs, s.ord[i].rec>>],
              cur |-> s.cur, max |-> s.max, cap |-> Cap(s), b |-> s.b]

RetJ(r) == [tag |-> r.tag, a |-> r.a, b |-> r.b, c |-> r.c, key |-> r.key,
            val |-> r.val, d |-> r.d, seq |-> r.seq]

ArgJ(a) == [op |-> a.op, k |-> a.k, kh |-> a.kh, vs |-> a.vs, n |-> a.n,
            keep |-> a.keep, w |-> a.w, fl |-> a.fl]

EdgeJ == [f    |-> [c \in CacheIds |-> StateJ(cs[c])],
          c    |-> obs'.c,
          a    |-> ArgJ(obs'.a),
          ret  |-> RetJ(obs'.x.ret),
          t    |-> [c \in CacheIds |-> StateJ(cs'[c])],
          d    |-> obs'.d,
          fresh   |-> obs'.x.fresh,
          ev      |-> KeySeq(obs'.x.ev),
          dropped |-> obs'.x.dropped,
          handed  |-> obs'.x.handed,
          leaked  |-> obs'.x.leaked,
          hashmax |-> obs'.x.hashmax,
          grew    |-> obs'.x.grew]

Emit == PrintT(<<"EDGE", ToJson(EdgeJ)>>)

InitJ == PrintT(<<"INIT", ToJson([c \in CacheIds |-> StateJ(cs[c])])>>)

=============================================================================
