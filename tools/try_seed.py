#!/usr/bin/env python3
"""Developer tool (not a manifest command): confirm a seeded change and run the checks on it.

  try_seed.py SRC_DIR SEED_ID PROPERTY [--checks C01,C02,...]

SRC_DIR holds patch.diff, demo.rs, meta.json as written by a seeding sub-agent.
1. in a scratch worktree of /repo (outside /repo and /verif): the existing suite passes with the
   patch, the demonstration fails with it and passes without it;
2. the patch is applied to /repo, the listed checks (quick tier) are run, the patch is undone;
3. everything is recorded under /verif/seeded/SEED_ID/."""
import json
import os
import shutil
import subprocess
import sys
import time

ROOT = os.path.dirname(os.path.dirname(os.path.abspath(__file__)))
SCRATCH = os.environ.get("SEED_SCRATCH", "/tmp/wt_confirm")
# where the patch is applied for the checks: /repo itself, or (VERIF_REPO set) a scratch worktree
# of it that an isolated copy of /verif is pointed at, so that seeds can be evaluated while
# /verif and /repo are being worked on
TARGET = os.environ.get("VERIF_REPO", "/repo")


def sh(cmd, cwd=None, timeout=3600, env=None):
    e = dict(os.environ)
    e["CARGO_NET_OFFLINE"] = "true"
    if env:
        e.update(env)
    p = subprocess.run(cmd, cwd=cwd, shell=isinstance(cmd, str), stdout=subprocess.PIPE,
                       stderr=subprocess.STDOUT, text=True, timeout=timeout, env=e)
    return p.returncode, p.stdout


def suite_ok(out):
    return "FAILED" not in out and "error[" not in out and "test result: ok" in out


def main():
    src, sid, prop = sys.argv[1], sys.argv[2], sys.argv[3]
    checks = [prop]
    if "--checks" in sys.argv:
        checks = sys.argv[sys.argv.index("--checks") + 1].split(",")
    patch = os.path.abspath(os.path.join(src, "patch.diff"))
    ported = os.path.join(ROOT, "seeded", sid, "patch_ported.diff")
    if os.path.exists(ported):
        patch = ported       # the original no longer applies since a later fix: commit touched the same lines
    demo = os.path.abspath(os.path.join(src, "demo.rs"))
    meta = {}
    try:
        meta = json.load(open(os.path.join(src, "meta.json")))
        if "agent_ran" in meta:     # re-run from /verif/seeded/<id>: keep the seeding agent's description
            meta = {"summary": meta.get("summary"), "needs": meta.get("needs"), "ran": meta.get("agent_ran")}
    except Exception:
        pass
    result = {"seed": sid, "property": prop, "agent_meta": meta, "ran": []}

    # ---- 1. confirm in a scratch worktree
    if not os.path.isdir(SCRATCH):
        rc, out = sh(["git", "-C", "/repo", "worktree", "add", "--detach", SCRATCH, "HEAD"])
        assert rc == 0, out
    sh(["git", "checkout", "--detach", subprocess.run(["git", "-C", "/repo", "rev-parse", "HEAD"],
        stdout=subprocess.PIPE, text=True).stdout.strip()], cwd=SCRATCH)
    sh("git checkout -- . && git clean -fdq -e target", cwd=SCRATCH)
    rc, out = sh(["git", "apply", "--check", patch], cwd=SCRATCH)
    result["applies"] = rc == 0
    if rc != 0:
        result["apply_error"] = out[-800:]
        finish(result, src, sid)
        return 1
    # demo on the clean tree
    shutil.copy(demo, os.path.join(SCRATCH, "tests", "seed_demo.rs"))
    rc_clean, out_clean = sh("cargo test --offline --test seed_demo 2>&1 | tail -30", cwd=SCRATCH)
    result["demo_passes_without"] = "test result: ok" in out_clean and "FAILED" not in out_clean
    os.remove(os.path.join(SCRATCH, "tests", "seed_demo.rs"))
    # suite + demo with the patch
    sh(["git", "apply", patch], cwd=SCRATCH)
    rc_suite, out_suite = sh("cargo test --workspace --no-fail-fast --offline 2>&1 | grep -E 'test result|FAILED|^error' ",
                             cwd=SCRATCH)
    result["suite_passes_with"] = suite_ok(out_suite)
    result["suite_summary"] = out_suite.strip().splitlines()[-6:]
    shutil.copy(demo, os.path.join(SCRATCH, "tests", "seed_demo.rs"))
    rc_with, out_with = sh("cargo test --offline --test seed_demo 2>&1 | tail -30", cwd=SCRATCH)
    result["demo_fails_with"] = not ("test result: ok" in out_with and "FAILED" not in out_with)
    result["demo_output_with"] = out_with[-1200:]
    os.remove(os.path.join(SCRATCH, "tests", "seed_demo.rs"))
    sh("git checkout -- . && git clean -fdq -e target", cwd=SCRATCH)
    result["confirmed"] = bool(result["demo_passes_without"] and result["suite_passes_with"]
                               and result["demo_fails_with"])
    result["ran"].append("scratch worktree %s: demo on clean tree, suite with patch, demo with patch" % SCRATCH)

    # ---- 2. the checks against the patched /repo
    verdicts = {}
    if result["confirmed"]:
        rc, out = sh(["git", "-C", TARGET, "status", "--porcelain"])
        assert out.strip() == "", TARGET + " is not clean: " + out
        rc, out = sh(["git", "-C", TARGET, "apply", patch])
        assert rc == 0, out
        try:
            for c in checks:
                t0 = time.time()
                rc, out = sh([sys.executable, os.path.join(ROOT, "tools", "check.py"), c, "--tier", "quick"],
                             cwd=ROOT, timeout=7200)
                lines = [l for l in out.splitlines() if l.startswith("VIOLATION") or l.startswith("KNOWN-FINDING")
                         or l.startswith("TOOL-ERROR")]
                first = [l for l in out.splitlines() if l and not l.startswith("[check]")][:2]
                verdicts[c] = {"exit": rc, "lines": lines[:4], "first_output": [x[:300] for x in first],
                               "tail_if_tool_error": out[-2500:] if rc not in (0, 1) else "",
                               "wall_s": round(time.time() - t0, 1)}
                print(sid, c, "exit", rc, (first[0][:160] if first else ""), flush=True)
        finally:
            sh(["git", "-C", TARGET, "checkout", "--", "."])
            rc, out = sh(["git", "-C", TARGET, "status", "--porcelain"])
            assert out.strip() == "", TARGET + " not restored: " + out
        result["ran"].append("git -C %s apply patch.diff; python3 tools/check.py <id> --tier quick for %s; "
                             "git -C %s checkout -- .%s" % (TARGET, ",".join(checks), TARGET,
                             "" if TARGET == "/repo" else " (scratch worktree of /repo at HEAD, checks run from a copy of /verif with VERIF_REPO pointing at it)"))
    result["checks"] = verdicts
    result["detected_by"] = sorted(c for c, v in verdicts.items() if v["exit"] == 1)
    result["tool_errors"] = sorted(c for c, v in verdicts.items() if v["exit"] not in (0, 1))
    finish(result, src, sid)
    print(json.dumps({k: result[k] for k in ("seed", "confirmed", "detected_by", "tool_errors")}))
    return 0


def finish(result, src, sid):
    dst = os.path.join(ROOT, "seeded", sid)
    os.makedirs(dst, exist_ok=True)
    for f in ("patch.diff", "demo.rs"):
        if os.path.exists(os.path.join(src, f)) and os.path.abspath(src) != os.path.abspath(dst):
            shutil.copy(os.path.join(src, f), os.path.join(dst, f))
    am = result.get("agent_meta") or {}
    meta = {"property": result["property"], "seed": sid,
            "summary": am.get("summary"), "needs": am.get("needs"),
            "confirmed": result.get("confirmed"), "applies": result.get("applies"),
            "suite_passes_with_change": result.get("suite_passes_with"),
            "demo_fails_with_change": result.get("demo_fails_with"),
            "demo_passes_without_change": result.get("demo_passes_without"),
            "checks_run": result.get("checks"), "detected_by": result.get("detected_by"),
            "tool_errors": result.get("tool_errors"), "ran": result.get("ran"),
            "patch_used": "patch_ported.diff" if os.path.exists(os.path.join(dst, "patch_ported.diff")) else "patch.diff",
            "repo_head": subprocess.run(["git", "-C", "/repo", "rev-parse", "--short", "HEAD"],
                                        stdout=subprocess.PIPE, text=True).stdout.strip(),
            "agent_ran": am.get("ran")}
    with open(os.path.join(dst, "meta.json"), "w") as fh:
        json.dump(meta, fh, indent=1)


if __name__ == "__main__":
    sys.exit(main())
