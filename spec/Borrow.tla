------------------------------- MODULE Borrow -------------------------------
(***************************************************************************)
(* Property C18: what the compiler must accept and reject.                 *)
(*                                                                         *)
(* Part 1, loans.  Every API of LruCache that hands out a reference or a   *)
(* borrowing iterator creates a LOAN on the cache: shared if the API takes *)
(* &self, exclusive if it takes &mut self (get, get_entry, get_lru, drain  *)
(* take &mut self, so even the shared reference they return keeps the      *)
(* cache exclusively borrowed).  While a loan is live (its result is used  *)
(* later) a call is admissible iff Rust's aliasing-xor-mutation rule       *)
(* admits it:  shared loan + shared call.  Everything else - a mutating    *)
(* call, a second exclusive borrow, moving or dropping the cache - must be *)
(* rejected by the borrow checker.  "No safe program can mutate or drop    *)
(* the cache while holding one" is the invariant NoMutationWhileLoaned of  *)
(* the little machine below; TLC enumerates every program                  *)
(*      acquire a;  call b;  use a                                         *)
(* with its predicted verdict, and tools/gen_borrow.py turns them into     *)
(* Rust functions that rustc must accept / reject accordingly.             *)
(*                                                                         *)
(* Part 2, auto traits.  LruCache<K, V, S> is Send iff K, V, S all are,    *)
(* and Sync iff all are; TLC enumerates all witness assignments.           *)
(***************************************************************************)
EXTENDS Integers, Sequences, FiniteSets, TLC, Json

(* API table: name |-> receiver mode.  Cross-checked against the `pub fn`  *)
(* signatures in src/lib.rs by the generator: an API missing here is a     *)
(* tool error, not a pass.                                                 *)
Shared == {"max_size", "current_size", "len", "is_empty", "capacity", "hasher", "iter", "keys",
           "values", "peek_lru", "peek_mru", "peek_entry", "peek", "contains", "clone", "fmt"}
Excl   == {"clear", "drain", "remove_lru", "get_lru", "remove_mru", "reserve", "try_reserve",
           "shrink_to", "shrink_to_fit", "set_max_size", "touch", "get_entry", "get",
           "remove_entry", "remove", "retain", "insert", "try_insert", "mutate"}
Move   == {"into_keys", "into_values", "into_iter", "drop", "move"}

(* the APIs whose result keeps the cache borrowed *)
Lending == {"hasher", "iter", "keys", "values", "peek_lru", "peek_mru", "peek_entry", "peek",
            "get_lru", "get_entry", "get", "drain"}

Mode(api) == IF api \in Shared THEN "shared" ELSE IF api \in Excl THEN "excl" ELSE "move"

(* aliasing xor mutation *)
Admissible(loanMode, callMode) == loanMode = "shared" /\ callMode = "shared"

(* the error the borrow checker reports for an inadmissible call *)
ErrorClass(loanMode, callMode) ==
    CASE callMode = "move" -> "E0505"                          \* move out while borrowed
      [] loanMode = "shared" /\ callMode = "excl" -> "E0502"   \* mutable while immutably borrowed
      [] loanMode = "excl" /\ callMode = "excl" -> "E0499"     \* second mutable borrow
      [] loanMode = "excl" /\ callMode = "shared" -> "E0502"   \* immutable while mutably borrowed
      [] OTHER -> "none"

Programs ==
    {[acq |-> a, call |-> b, loan |-> Mode(a), mode |-> Mode(b),
      accept |-> Admissible(Mode(a), Mode(b)),
      error |-> IF Admissible(Mode(a), Mode(b)) THEN "none" ELSE ErrorClass(Mode(a), Mode(b))]
     : a \in Lending, b \in Shared \cup Excl \cup Move}

-----------------------------------------------------------------------------
(* the machine: a cache variable, the live loans, whether it was moved *)

VARIABLES loans, moved, mutated, step

Init == loans = {} /\ moved = FALSE /\ mutated = FALSE /\ step = 0

Acquire(a) == /\ ~moved /\ step < 3
              /\ \A l \in loans : Admissible(l, Mode(a)) \/ FALSE
              /\ loans' = loans \cup {Mode(a)} /\ step' = step + 1
              /\ UNCHANGED <<moved, mutated>>

(* the type system admits a call only if every live loan admits it *)
Call(b) == /\ ~moved /\ step < 3
           /\ \A l \in loans : Admissible(l, Mode(b))
           /\ moved' = (Mode(b) = "move")
           /\ mutated' = (mutated \/ (Mode(b) \in {"excl", "move"} /\ loans # {}))
           /\ step' = step + 1 /\ UNCHANGED loans

(* the last use of a loan ends it *)
Release == /\ loans # {} /\ \E l \in loans : loans' = loans \ {l}
           /\ UNCHANGED <<moved, mutated, step>>

Next == (\E a \in Lending : Acquire(a)) \/ (\E b \in Shared \cup Excl \cup Move : Call(b)) \/ Release
Spec == Init /\ [][Next]_<<loans, moved, mutated, step>>

NoMutationWhileLoaned == ~mutated

-----------------------------------------------------------------------------
(* auto traits: witnesses <<isSend, isSync>> for K, V, S *)

Witness == {<<TRUE, TRUE>>, <<TRUE, FALSE>>, <<FALSE, TRUE>>, <<FALSE, FALSE>>}

Assignments ==
    {[k |-> k, v |-> v, s |-> s,
      send |-> k[1] /\ v[1] /\ s[1],
      sync |-> k[2] /\ v[2] /\ s[2]] : k \in Witness, v \in Witness, s \in Witness}

Emit == PrintT(<<"BORROW", ToJson([programs |-> Programs, assignments |-> Assignments,
                                    shared |-> Shared, excl |-> Excl, moving |-> Move,
                                    lending |-> Lending])>>)
EmitInit == Init /\ Emit

EmitSpec == EmitInit /\ [][Next]_<<loans, moved, mutated, step>>
=============================================================================
