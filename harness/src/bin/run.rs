//! Executes a script of specification-level operations on the real cache.
//!
//!   run --script FILE [--hasher H] [--keyform owned|borrowed] [--universe N]
//!       [--events OUT] [--compare] [--mismatches OUT] [--stop-after N]
//!
//! Script lines are JSON objects {c, d, a:{op,...}, crash?, expect?}; a line
//! {"reset": true} drops all caches and resets the token registry.
//! With --compare every line carrying `expect` (written by TLC) is compared
//! facet by facet with what the real cache did, by plain equality.

use lru_mem_verif_harness::*;
use serde_json::{json, Value};
use std::io::{BufRead, BufReader, BufWriter, Write};

#[global_allocator]
static A: alloc::CountingAlloc = alloc::CountingAlloc;

/// Records how far the run got (line / segment number), so that the driver of
/// this process can tell which operation was executing if the code under test
/// brings the process down (segfault, sanitizer abort, resource limit).
struct Progress(Option<std::fs::File>);

impl Progress {
    fn new(args: &[String]) -> Progress {
        Progress(arg(args, "--progress").map(|p| std::fs::File::create(p).unwrap()))
    }

    fn at(&mut self, n: u64) {
        use std::io::{Seek, SeekFrom};
        if let Some(f) = self.0.as_mut() {
            let _ = f.seek(SeekFrom::Start(0));
            let _ = write!(f, "{:<20}", n);
        }
    }
}

fn arg(args: &[String], name: &str) -> Option<String> {
    args.iter().position(|a| a == name).and_then(|i| args.get(i + 1).cloned())
}

fn sorted(v: &Value) -> Value {
    let mut items: Vec<Value> = v.as_array().cloned().unwrap_or_default();
    items.sort_by_key(|x| x.to_string());
    json!(items)
}

/// All comparisons made for one step: (facet, expected, actual, is_upper_bound).
///
/// Two families. (a) Equality with TLC's expectation: what the call returned
/// and the state it left. A difference in the KEY SET is a root cause of which
/// most other differences are mere consequences, so the facets that depend on
/// the content are only compared when the key sets agree. (b) Self-consistency
/// of what the real cache reports (mirror traversals, pointer identity,
/// accounting against its own content, the bound, lookups against its own
/// traversal): evaluated on the real state alone.
fn facets(ev: &Value, ex: &Value) -> Vec<(String, Value, Value, bool)> {
    let mut out = Vec::new();
    let mut eq = |name: &str, e: Value, a: Value| out.push((name.to_string(), e, a, false));
    let st = &ev["st"];
    let t = &ex["t"];
    let op = ev["a"]["op"].as_str().unwrap_or("");
    let expect_panic = ex["ret"]["tag"] == "panic";

    eq("panic", json!(expect_panic), json!(ev["panic"]["kind"] != "none"));
    eq("alive", t["alive"].clone(), st["alive"].clone());

    let exp_rows: Vec<Value> = t["ord"].as_array().cloned().unwrap_or_default();
    let act_rows: Vec<Value> = st["ord"].as_array().cloned().unwrap_or_default();
    let exp_keys: Vec<Value> = exp_rows.iter().map(|r| r[0].clone()).collect();
    let act_keys: Vec<Value> = act_rows.iter().map(|r| r[0].clone()).collect();
    let same_keyset = sorted(&json!(exp_keys)) == sorted(&json!(act_keys));
    // Which of the two equal key objects survives a replacing insert is stated
    // by no property: the passed key is named like the stored one.
    let replaced: Option<Value> = if op == "insert" && ex["ret"]["tag"] == "OkSome" {
        Some(ev["a"]["k"].clone())
    } else { None };
    let norm = |v: &Value| -> Value {
        match &replaced {
            Some(k) => {
                let s = v.to_string().replace("[\"AK\",0]", &format!("[\"K\",{}]", k));
                serde_json::from_str(&s).unwrap_or(v.clone())
            },
            None => v.clone()
        }
    };
    let same_keys = exp_keys == act_keys;
    eq("keys", json!(exp_keys), json!(act_keys));

    let row3 = |r: &Value| -> Value {
        if Some(&r[0]) == replaced.as_ref() { json!([r[0], "-", r[2]]) } else { json!([r[0], r[1], r[2]]) }
    };

    if same_keys {
        eq("sizes", json!(exp_rows.iter().map(row3).collect::<Vec<_>>()),
           json!(act_rows.iter().map(row3).collect::<Vec<_>>()));
    }

    if t["alive"] == true && st["alive"] == true {
        let hook = &st["hook"];
        let recs: Vec<Value> = hook["fwd"].as_array()
            .map(|v| v.iter().map(|n| n[1].clone()).collect()).unwrap_or_default();
        let same_content = same_keys && exp_rows.iter().zip(act_rows.iter())
            .all(|(e, a)| row3(e) == row3(a));

        // (a) against TLC
        if same_content {
            eq("rec", json!(exp_rows.iter().map(|r| r[3].clone()).collect::<Vec<_>>()), json!(recs));
            eq("cur", t["cur"].clone(), st["cur"].clone());
        }

        eq("max", t["max"].clone(), st["max"].clone());

        if same_keyset {
            eq("cap", t["cap"].clone(), st["cap"].clone());
            eq("b", t["b"].clone(), hook["b"].clone());
            let fresh = ex["fresh"].as_i64().unwrap_or(0);
            let marks: Vec<Value> = act_keys.iter().map(|k| {
                if k.as_i64() == Some(fresh) { json!([["AK", 0], ["AV", 0]]) }
                else { json!([["K", k], ["V", k]]) }
            }).collect();
            eq("marks", norm(&json!(marks)), norm(&st["marks"]));
        }

        // (b) the real state against itself: see self_facets (appended below)
    }

    if !expect_panic && same_keyset {
        eq("ret", ex["ret"].clone(), ev["ret"].clone());
        // type shapes without drop glue: the end of an untracked object is inferred (neither
        // stored nor handed out), which cannot tell a leaked object from a dropped one
        let inferred = !(TRACK_K && TRACK_V)
            && !ex["leaked"].as_array().map(|v| v.is_empty()).unwrap_or(true);
        if !inferred {
            eq("dropped", sorted(&norm(&ex["dropped"])), sorted(&norm(&ev["dropped"])));
        }
        eq("handed", sorted(&ex["handed"]), sorted(&ev["handed"]));
    }

    eq("anom", json!([]), ev["anom"].clone());

    // every object is in exactly one place afterwards (C06), unless the model says
    // that this call leaks (a forgotten iterator)
    if ex["leaked"].as_array().map(|v| v.is_empty()).unwrap_or(true) {
        eq("conservation", json!({"dup": 0, "missing": 0}), ev["cons"].clone());
    }
    eq("others", json!(ev["others"].as_array().map(|v| v.iter()
        .map(|o| json!([o[0], true])).collect::<Vec<_>>()).unwrap_or_default()), ev["others"].clone());

    if ex["readonly"] == true {
        eq("readonly_fp", ev["pre_fp"].clone(), ev["fp"].clone());
    }

    if op == "clone" || op == "clone_from" {
        let dt = &ex["dt"];
        let dst = &ev["dst"];
        let e_rows: Vec<Value> = dt["ord"].as_array().cloned().unwrap_or_default();
        eq("clone_ord", json!(e_rows), dst["ord"].clone());
        eq("clone_rec", json!(e_rows.iter().map(|r| r[3].clone()).collect::<Vec<_>>()),
           json!(dst["hook"]["fwd"].as_array().map(|v| v.iter().map(|n| n[1].clone()).collect::<Vec<_>>())
                .unwrap_or_default()));
        eq("clone_cur", dt["cur"].clone(), dst["cur"].clone());
        eq("clone_max", dt["max"].clone(), dst["max"].clone());
        if op == "clone" {
            // how much capacity a clone_from leaves the target with is stated by no property
            eq("clone_cap", dt["cap"].clone(), dst["cap"].clone());
        }
        let mut rev: Vec<Value> = e_rows.iter().map(|r| r[0].clone()).collect();
        rev.reverse();
        eq("clone_mirror", json!(rev), dst["rev"].clone());
        let marks: Vec<Value> = e_rows.iter().map(|r| json!([["CK", r[0]], ["CV", r[0]]])).collect();
        eq("clone_marks", json!(marks), dst["marks"].clone());
        // lookups in the new cache (both key forms, peek and contains) against its own traversal
        if let Some(dp) = ev["dprobe"].as_array() {
            let listed: Vec<i64> = dst["ord"].as_array()
                .map(|v| v.iter().map(|r| r[0].as_i64().unwrap_or(-1)).collect()).unwrap_or_default();
            let want: Vec<Value> = dp.iter().map(|p| {
                let f = listed.contains(&p[0].as_i64().unwrap_or(-1)) as i64;
                json!([p[0], f, f, f, f])
            }).collect();
            eq("clone_probe", json!(want), json!(dp));
        }
    }

    out.push(("hashes".to_string(), ex["hashmax"].clone(), ev["counts"]["hash"].clone(), true));

    for (f, e, a) in self_facets(ev) {
        out.push((f, e, a, false));
    }

    out
}

/// Segment mode: every line of FILE is {prefix:[ops], op:op, suffix:[ops], sweep?:[kinds]}.
/// Without `sweep` the segment is executed once. With `sweep`, for every kind the
/// operation is executed with a panic armed at the n-th callback of that kind for
/// n = 1, 2, ... until the operation completes without the panic firing, so that
/// every callback of the operation in that state is hit exactly once.
fn run_segments(args: &[String], cfg: &Config) {
    let file = arg(args, "--segments").unwrap();
    let mut events = BufWriter::new(std::fs::File::create(arg(args, "--events").expect("--events")).unwrap());
    let max_n: u32 = arg(args, "--max-n").and_then(|s| s.parse().ok()).unwrap_or(60);
    let reader = BufReader::new(std::fs::File::open(&file).unwrap());
    let mut segments = 0u64;
    let mut runs = 0u64;
    let mut fired = 0u64;
    let mut executed = 0u64;
    let mut per_kind: std::collections::BTreeMap<String, u64> = Default::default();
    let mut per_op: std::collections::BTreeMap<String, u64> = Default::default();
    let mut progress = Progress::new(args);

    for line in reader.lines() {
        let line = line.unwrap();
        if line.trim().is_empty() { continue; }
        let seg: Value = serde_json::from_str(&line).expect("bad segment");
        segments += 1;
        progress.at(segments);
        let prefix: Vec<Value> = seg["prefix"].as_array().cloned().unwrap_or_default();
        let suffix: Vec<Value> = seg["suffix"].as_array().cloned().unwrap_or_default();
        let sweep: Vec<String> = seg["sweep"].as_array()
            .map(|v| v.iter().filter_map(|x| x.as_str().map(|s| s.to_string())).collect())
            .unwrap_or_default();
        let mut plan: Vec<(String, u32)> = Vec::new();

        if sweep.is_empty() {
            plan.push((String::new(), 0));
        }

        let first_run_of_segment = runs + 1;
        // optional list of the callback numbers to arm (default: 1, 2, 3, ...)
        let ns: Vec<u32> = seg["ns"].as_array()
            .map(|v| v.iter().filter_map(|x| x.as_u64().map(|n| n as u32)).collect())
            .unwrap_or_default();
        let nth = |i: u32| -> Option<u32> {
            if ns.is_empty() { if i <= max_n { Some(i) } else { None } }
            else { ns.get(i as usize - 1).cloned() }
        };
        let mut idx: u32 = 1;
        let mut kinds = sweep.clone();
        kinds.reverse();
        let mut current: Option<(String, u32)> = if sweep.is_empty() { None }
            else { kinds.pop().and_then(|k| nth(1).map(|n| (k, n))) };

        loop {
            let (kind, n) = if let Some(p) = plan.pop() { p }
                            else if let Some((k, n)) = current.clone() { (k, n) }
                            else { break };
            let mut session = Session::new(cfg.clone());
            reg_reset();
            runs += 1;

            let mut broken = false;
            let corrupt = |ev: &Value| ev["st"]["alive"] == true && ev["st"]["trav"] == false;

            // A long prefix (a cache of a hundred entries) is logged in full only in the first
            // run of a sweep; later runs replay it silently and log one `sync` event carrying
            // the state it leads to, which the trace specification adopts.
            let quiet = seg["quiet_prefix"] == true && runs > first_run_of_segment;
            let mut last_ev = Value::Null;

            for o in prefix.iter() {
                if broken { break; }
                let ev = session.exec(o);
                broken = corrupt(&ev);
                if quiet { last_ev = ev; } else { writeln!(events, "{}", ev).unwrap(); }
                executed += 1;
            }

            if quiet && !last_ev.is_null() {
                last_ev["a"]["op"] = json!("sync");
                writeln!(events, "{}", last_ev).unwrap();
            }

            let mut o = seg["op"].clone();

            if !kind.is_empty() {
                o["crash"] = json!({"kind": kind, "n": n});
            }

            let mut did_fire = false;

            if !broken {
                let ev = session.exec(&o);
                did_fire = ev["fired"] == true
                    || (kind == "alloc" && ev["a"]["fl"] == true);
                broken = corrupt(&ev);
                writeln!(events, "{}", ev).unwrap();
                executed += 1;
                *per_op.entry(o["a"]["op"].as_str().unwrap_or("?").to_string()).or_default() += 1;
            }

            if did_fire || kind.is_empty() {
                for o in suffix.iter() {
                    if broken { break; }
                    let ev = session.exec(o);
                    broken = corrupt(&ev);
                    writeln!(events, "{}", ev).unwrap();
                    executed += 1;
                }
            }

            let fin = if broken { session.abandon() } else { session.finish() };
            writeln!(events, "{}", json!({"reset": true, "fin": fin, "leak_ok": true})).unwrap();
            events.flush().unwrap();

            if !kind.is_empty() {
                if did_fire {
                    fired += 1;
                    *per_kind.entry(kind.clone()).or_default() += 1;
                }

                let _ = n;
                current = if did_fire && nth(idx + 1).is_some() {
                    idx += 1;
                    nth(idx).map(|m| (kind, m))
                }
                else {
                    idx = 1;
                    kinds.pop().and_then(|k| nth(1).map(|m| (k, m)))
                };
            }
            else if sweep.is_empty() {
                break;
            }
        }
    }

    events.flush().unwrap();
    println!("{}", json!({"segments": segments, "runs": runs, "fired": fired, "executed": executed,
        "per_kind": per_kind, "per_op": per_op, "hasher": cfg.hasher,
        "keyform": format!("{:?}", cfg.keyform)}));
}

fn main() {
    std::panic::set_hook(Box::new(|_| { }));
    let args: Vec<String> = std::env::args().collect();

    if arg(&args, "--segments").is_some() {
        let cfg = Config {
            hasher: arg(&args, "--hasher").unwrap_or_else(|| "default".into()),
            keyform: if arg(&args, "--keyform").as_deref() == Some("borrowed") { KeyForm::Borrowed }
                     else { KeyForm::Owned },
            universe: arg(&args, "--universe").and_then(|s| s.parse().ok()).unwrap_or(4),
            seed: arg(&args, "--seed").and_then(|s| s.parse().ok()).unwrap_or(0),
            full_hook: true,
            project_every: 1
        };
        run_segments(&args, &cfg);
        return;
    }

    let script = arg(&args, "--script").expect("--script");
    let cfg = Config {
        hasher: arg(&args, "--hasher").unwrap_or_else(|| "default".into()),
        keyform: if arg(&args, "--keyform").as_deref() == Some("borrowed") { KeyForm::Borrowed }
                 else { KeyForm::Owned },
        universe: arg(&args, "--universe").and_then(|s| s.parse().ok()).unwrap_or(4),
        seed: arg(&args, "--seed").and_then(|s| s.parse().ok()).unwrap_or(0),
        full_hook: true,
        project_every: 1
    };
    let compare = args.iter().any(|a| a == "--compare");
    let stop_after: u64 = arg(&args, "--stop-after").and_then(|s| s.parse().ok()).unwrap_or(u64::MAX);
    let max_mismatch: usize = arg(&args, "--max-mismatches").and_then(|s| s.parse().ok()).unwrap_or(200);
    let mut events = arg(&args, "--events").map(|p| BufWriter::new(std::fs::File::create(p).unwrap()));
    let mut mism = arg(&args, "--mismatches").map(|p| BufWriter::new(std::fs::File::create(p).unwrap()));
    let events_limit: u64 = arg(&args, "--events-limit").and_then(|s| s.parse().ok()).unwrap_or(u64::MAX);

    let mut session = Session::new(cfg.clone());
    let roguard_path = arg(&args, "--roguard");
    let new_guard = |windows: u64| roguard_path.as_ref().map(|p| RoGuard {
        file: std::fs::OpenOptions::new().create(true).write(true).open(p).unwrap(), windows });
    session.roguard = new_guard(0);
    let reader = BufReader::new(std::fs::File::open(&script).unwrap());
    let mut line_no = 0u64;
    let mut executed = 0u64;
    let mut compared = 0u64;
    let mut comparisons = 0u64;
    let mut n_mismatch = 0usize;
    let mut per_op: std::collections::BTreeMap<String, u64> = Default::default();
    let mut ends = 0u64;
    let mut leaks = 0u64;
    // After a step whose resulting STATE differs from TLC's, the following
    // expectations (which assume TLC's state) say nothing; comparison resumes
    // once the real state equals the expected one again.
    let mut in_sync = true;
    let mut skipped = 0u64;
    let mut broken = false;
    let mut progress = Progress::new(&args);

    for line in reader.lines() {
        let line = line.unwrap();
        line_no += 1;
        progress.at(line_no);

        if line.trim().is_empty() {
            continue;
        }

        let op: Value = match serde_json::from_str(&line) {
            Ok(v) => v,
            Err(e) => { eprintln!("bad script line {}: {}", line_no, e); std::process::exit(2); }
        };

        if op["reset"] == true {
            let fin = if broken { session.abandon() } else { session.finish() };
            broken = false;
            ends += 1;
            let allowed = op["leak_ok"] == true;

            if let Some(w) = events.as_mut() {
                if executed <= events_limit {
                    writeln!(w, "{}", json!({"reset": true, "line": line_no, "fin": fin, "leak_ok": allowed})).unwrap();
                }
            }

            if compare {
                let live = fin["live"].as_u64().unwrap_or(0);
                let anom = fin["anom"].as_array().map(|a| a.len()).unwrap_or(0);
                let expect_live = op["expect_live"].as_u64().unwrap_or(0);

                if (live != expect_live && !allowed) || anom > 0 {
                    leaks += 1;
                    n_mismatch += 1;

                    if let Some(w) = mism.as_mut() {
                        writeln!(w, "{}", json!({"line": line_no, "facet": "end_of_life", "op": "reset",
                            "expected": {"live": 0, "anom": []}, "actual": fin})).unwrap();
                    }
                }
            }

            reg_reset();
            let windows = session.roguard.as_ref().map(|g| g.windows).unwrap_or(0);
            session = Session::new(cfg.clone());
            session.roguard = new_guard(windows);
            in_sync = true;
            continue;
        }

        if broken {
            skipped += 1;
            continue;
        }

        let ev = session.exec(&op);
        executed += 1;
        *per_op.entry(op["a"]["op"].as_str().unwrap_or("?").to_string()).or_default() += 1;

        if ev["st"]["alive"] == true && ev["st"]["trav"] == false {
            // the list is open or points outside the table: nothing more can
            // safely be executed on these caches
            broken = true;
        }

        if let Some(w) = events.as_mut() {
            if executed <= events_limit {
                writeln!(w, "{}", ev).unwrap();
            }
        }

        if compare && !op["expect"].is_null() {
            let fs = facets(&ev, &op["expect"]);
            let state_ok = fs.iter().all(|(f, e, a, _)| {
                !matches!(f.as_str(), "alive" | "keys" | "sizes" | "rec" | "cur" | "max" | "cap" | "b"
                    | "trav") || e == a
            });
            let was_in_sync = in_sync;
            in_sync = state_ok;

            if !was_in_sync {
                skipped += 1;
                continue;
            }

            compared += 1;

            for (facet, e, a, upper) in fs {
                comparisons += 1;
                let ok = if upper { a.as_i64().unwrap_or(i64::MAX) <= e.as_i64().unwrap_or(0) } else { e == a };

                if !ok {
                    n_mismatch += 1;

                    if n_mismatch <= max_mismatch {
                        if let Some(w) = mism.as_mut() {
                            writeln!(w, "{}", json!({"line": line_no, "facet": facet,
                                "op": op["a"]["op"], "a": op["a"], "expected": e, "actual": a,
                                "exp_tag": op["expect"]["ret"]["tag"], "act_tag": ev["ret"]["tag"],
                                "crash": op["crash"]})).unwrap();
                        }
                    }
                }
            }
        }

        if executed >= stop_after {
            break;
        }
    }

    let fin = session.finish();
    let summary = json!({"lines": line_no, "executed": executed, "compared": compared,
        "comparisons": comparisons, "mismatches": n_mismatch, "per_op": per_op,
        "resets": ends, "end_of_life_failures": leaks, "skipped_out_of_sync": skipped,
        "roguard_windows": session.roguard.as_ref().map(|g| g.windows).unwrap_or(0), "final": fin,
        "hasher": cfg.hasher, "keyform": format!("{:?}", cfg.keyform)});
    println!("{}", summary);

    if let Some(w) = events.as_mut() { w.flush().unwrap(); }
    if let Some(w) = mism.as_mut() { w.flush().unwrap(); }
}
