SPECIFICATION Spec
CONSTANTS
  Overhead = 64
  GroupWidth = 16
  CacheIds = {1}
  Keys <- MCKeys
  KHeaps <- MCKHeaps
  VSizes <- MCVSizes
  Limits <- MCLimits
  InitCaps <- MCInitCaps
  Addl <- MCAddl
  Ops <- MCOps
  MaxWord = 0
  Letters = {"n", "b"}
VIEW DumpView
ACTION_CONSTRAINT Emit
CHECK_DEADLOCK FALSE
