#!/usr/bin/env python3
"""Turn TLC's edge dump (MC_Dump*) into operation scripts for the Rust replayer.

  walks.py tour   DUMP OUT [--random-steps N --seed S]   covering tour (+ random walk)
  walks.py crash  DUMP OUT [--max-edges N --seed S]      crash-sweep segments

Every transition TLC printed is one line  <<"EDGE", "<json>">>.  The state graph
is rebuilt from the f/t fields (the JSON text of a state is its identity)."""
import json
import random
import sys
from collections import defaultdict, deque

ITER_KINDS = {"iter", "keys", "values", "drain", "into_iter", "into_keys", "into_values"}
READ_OPS = {"peek", "peek_entry", "peek_lru", "peek_mru", "contains", "len", "is_empty",
            "current_size", "max_size", "capacity", "debug", "hasher", "iter", "keys", "values", "clone", "clone_from"}


def parse_dump(path):
    edges = []
    with open(path, "r", errors="replace") as fh:
        for line in fh:
            if not line.startswith('<<"EDGE", "'):
                continue
            body = line.rstrip("\n")
            body = body[len('<<"EDGE", "'):]
            if body.endswith('">>'):
                body = body[:-3]
            body = body.replace('\\"', '"').replace("\\\\", "\\")
            edges.append(json.loads(body))
    return edges


class Graph:
    def __init__(self, edges):
        self.ids = {}
        self.states = []
        self.out = defaultdict(list)       # state -> [edge index]
        self.edges = edges
        self.succ = defaultdict(dict)      # state -> {succ state: edge index}
        for i, e in enumerate(edges):
            f = self.sid(e["f"])
            t = self.sid(e["t"])
            e["_f"], e["_t"] = f, t
            self.out[f].append(i)
            if t != f and t not in self.succ[f]:
                self.succ[f][t] = i

    def sid(self, st):
        key = json.dumps(st, sort_keys=True)
        if key not in self.ids:
            self.ids[key] = len(self.states)
            self.states.append(st)
        return self.ids[key]

    def dead(self):
        for key, i in self.ids.items():
            st = self.states[i]
            if all(not c["alive"] for c in st):
                return i
        return None

    def path(self, src, want):
        """shortest edge path from src to the nearest state satisfying want()"""
        if want(src):
            return []
        prev = {src: None}
        dq = deque([src])
        while dq:
            u = dq.popleft()
            for v, ei in self.succ[u].items():
                if v not in prev:
                    prev[v] = (u, ei)
                    if want(v):
                        p = []
                        while prev[v] is not None:
                            u2, e2 = prev[v]
                            p.append(e2)
                            v = u2
                        p.reverse()
                        return p
                    dq.append(v)
        return None


def script_line(e):
    c = e["c"]
    a = dict(e["a"])
    exp = {"t": e["t"][c - 1], "ret": e["ret"], "fresh": e["fresh"], "ev": e["ev"],
           "dropped": e["dropped"], "handed": e["handed"], "leaked": e["leaked"],
           "hashmax": e["hashmax"], "grew": e["grew"], "readonly": a["op"] in READ_OPS,
           "nalive": sum(1 for x in e["f"] if x["alive"])}
    if e.get("d", 0):
        exp["dt"] = e["t"][e["d"] - 1]
    return {"c": c, "d": e.get("d", 0), "a": a, "expect": exp}


def is_forget(e):
    return bool(e["a"].get("fl")) and e["a"]["op"] in ITER_KINDS


def tour(g, rnd):
    """greedy covering tour over all edges (except forgotten iterators, which get their
    own segments), starting with no cache at all"""
    start = g.dead()
    if start is None:
        raise SystemExit("dump has no all-dead state; enable the drop/new operations")
    unvisited = {s: [i for i in es if not is_forget(g.edges[i])] for s, es in g.out.items()}
    for s in unvisited:
        rnd.shuffle(unvisited[s])
        # self-loops first (they do not move us)
        unvisited[s].sort(key=lambda i: g.edges[i]["_t"] != s)
        unvisited[s].reverse()        # pop() takes from the end: self-loops end up last -> fix below
        unvisited[s].sort(key=lambda i: g.edges[i]["_t"] == s)  # self loops last in list => popped first
    remaining = sum(len(v) for v in unvisited.values())
    cur = start
    seq = []
    while remaining:
        if unvisited.get(cur):
            ei = unvisited[cur].pop()
            remaining -= 1
            seq.append(ei)
            cur = g.edges[ei]["_t"]
        else:
            p = g.path(cur, lambda s: bool(unvisited.get(s)))
            if p is None:
                # unreachable from here: restart from scratch (reset) and go there
                seq.append(-1)
                cur = start
                p = g.path(cur, lambda s: bool(unvisited.get(s)))
                if p is None:
                    break
            for ei in p:
                seq.append(ei)
                cur = g.edges[ei]["_t"]
    return seq


def random_walk(g, rnd, steps):
    cur = g.dead()
    seq = []
    for _ in range(steps):
        es = [i for i in (g.out.get(cur) or []) if not is_forget(g.edges[i])]
        if not es:
            seq.append(-1)
            cur = g.dead()
            continue
        ei = rnd.choice(es)
        seq.append(ei)
        cur = g.edges[ei]["_t"]
    return seq


def write_script(g, seq, out):
    n = 0
    with open(out, "w") as fh:
        for ei in seq:
            if ei < 0:
                fh.write(json.dumps({"reset": True}) + "\n")
            else:
                fh.write(json.dumps(script_line(g.edges[ei]), separators=(",", ":")) + "\n")
                n += 1
        fh.write(json.dumps({"reset": True}) + "\n")
    return n


def op_line(c, op, **kw):
    a = {"op": op, "k": 0, "kh": 0, "vs": 0, "n": 0, "keep": [], "w": [], "fl": False}
    a.update(kw)
    return {"c": c, "d": 0, "a": a}


def suffix_ops(c, nkeys):
    """continued use after a leak / a panic: lookups, promotion, insertion, full
    traversals in both directions, removal, reallocation, then (by the runner) drop"""
    return [op_line(c, "len"), op_line(c, "get_lru"), op_line(c, "peek_mru"),
            op_line(c, "insert", k=1, kh=0, vs=1),
            op_line(c, "iter", w=["n"] * (nkeys + 2)),
            op_line(c, "values", w=["b"] * (nkeys + 2)),
            op_line(c, "get", k=2), op_line(c, "remove_mru"),
            op_line(c, "reserve", n=9), op_line(c, "mutate", k=1, vs=2),
            op_line(c, "shrink_to_fit"), op_line(c, "debug"), op_line(c, "clear"),
            op_line(c, "insert", k=3, kh=0, vs=0)]


def shortest_paths(g):
    start = g.dead()
    prev = {start: None}
    dq = deque([start])
    while dq:
        u = dq.popleft()
        for v, ei in g.succ[u].items():
            if v not in prev:
                prev[v] = (u, ei)
                dq.append(v)

    def path_to(s):
        p = []
        while prev.get(s) is not None:
            u, ei = prev[s]
            p.append(ei)
            s = u
        p.reverse()
        return p
    return prev, path_to


def strip_expect(line):
    return {k: v for k, v in line.items() if k != "expect"}


def forget_segments(g, rnd, out, max_edges):
    prev, path_to = shortest_paths(g)
    cands = [i for i, e in enumerate(g.edges) if is_forget(e) and e["_f"] in prev]
    rnd.shuffle(cands)
    if max_edges and len(cands) > max_edges:
        cands = cands[:max_edges]
    nkeys = 1 + max((len(c["ord"]) for st in g.states for c in st), default=0)
    with open(out, "w") as fh:
        for ei in cands:
            e = g.edges[ei]
            owning = e["a"]["op"] in ("into_iter", "into_keys", "into_values")
            seg = {"prefix": [strip_expect(script_line(g.edges[j])) for j in path_to(e["_f"])],
                   "op": strip_expect(script_line(e)),
                   "suffix": [] if owning else suffix_ops(e["c"], nkeys)}
            fh.write(json.dumps(seg, separators=(",", ":")) + "\n")
    return len(cands)


def crash_segments(g, rnd, out, max_edges):
    """for (a sample of) the non-read edges: prefix to reach the state, the op, a suffix"""
    start = g.dead()
    # shortest paths to every state
    prev = {start: None}
    dq = deque([start])
    while dq:
        u = dq.popleft()
        for v, ei in g.succ[u].items():
            if v not in prev:
                prev[v] = (u, ei)
                dq.append(v)

    def path_to(s):
        p = []
        while prev.get(s) is not None:
            u, ei = prev[s]
            p.append(ei)
            s = u
        p.reverse()
        return p

    nkeys = 1 + max((len(c["ord"]) for st in g.states for c in st), default=0)
    cands = [i for i, e in enumerate(g.edges)
             if e["a"]["op"] not in ("new", "drop", "len", "is_empty", "current_size",
                                     "max_size", "capacity", "hasher", "peek_lru", "peek_mru")
             and e["a"]["op"] not in ITER_KINDS and e["_f"] in prev]
    rnd.shuffle(cands)
    if max_edges and len(cands) > max_edges:
        # keep the sample spread over operations
        by_op = defaultdict(list)
        for i in cands:
            by_op[g.edges[i]["a"]["op"]].append(i)
        cands = []
        while len(cands) < max_edges and any(by_op.values()):
            for op in sorted(by_op):
                if by_op[op] and len(cands) < max_edges:
                    cands.append(by_op[op].pop())
    n = 0
    with open(out, "w") as fh:
        for ei in cands:
            e = g.edges[ei]
            prefix = [strip_expect(script_line(g.edges[j])) for j in path_to(e["_f"])]
            op = e["a"]["op"]
            sweep = ["hash", "eq", "size", "clone"]
            if op in ("mutate", "retain"):
                sweep += ["closure", "closure_after"]
            if op == "try_reserve" and not e["a"]["fl"]:
                sweep += ["alloc"]        # refuse exactly the n-th allocation, n = 1, 2, ...
            seg = {"prefix": prefix, "op": strip_expect(script_line(e)),
                   "suffix": suffix_ops(e["c"], nkeys), "sweep": sweep}
            fh.write(json.dumps(seg, separators=(",", ":")) + "\n")
            n += 1
    return n


def main():
    mode, dump, out = sys.argv[1], sys.argv[2], sys.argv[3]
    opts = dict(zip(sys.argv[4::2], sys.argv[5::2]))
    seed = int(opts.get("--seed", "0"))
    rnd = random.Random(seed)
    edges = parse_dump(dump)
    g = Graph(edges)
    if mode == "tour":
        seq = tour(g, rnd)
        extra = int(opts.get("--random-steps", "0"))
        if extra:
            seq.append(-1)
            seq += random_walk(g, rnd, extra)
        n = write_script(g, seq, out)
        covered = len({ei for ei in seq if ei >= 0})
        print(json.dumps({"states": len(g.states), "edges": len(edges), "steps": n,
                          "edges_covered": covered}))
    elif mode == "forget":
        n = forget_segments(g, rnd, out, int(opts.get("--max-edges", "0")))
        print(json.dumps({"states": len(g.states), "edges": len(edges), "segments": n}))
    elif mode == "crash":
        n = crash_segments(g, rnd, out, int(opts.get("--max-edges", "0")))
        print(json.dumps({"states": len(g.states), "edges": len(edges), "segments": n}))
    else:
        raise SystemExit("unknown mode")


if __name__ == "__main__":
    main()
