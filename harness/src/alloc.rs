//! Counting global allocator with an armable refusal switch.

use std::alloc::{GlobalAlloc, Layout, System};
use std::cell::Cell;
use std::sync::atomic::{AtomicUsize, Ordering};

pub struct CountingAlloc;

thread_local! {
    /// While > 0 every allocation request of at least this many bytes made by
    /// this thread is refused (returns null).
    static REFUSE_FROM: Cell<usize> = const { Cell::new(0) };
    static REFUSED: Cell<usize> = const { Cell::new(0) };
    /// While > 0: countdown; the allocation request that brings it to 0 is refused
    /// (exactly one refusal), whatever its size.
    static REFUSE_NTH: Cell<usize> = const { Cell::new(0) };
    /// Live bytes allocated by this thread while tracking is on.
    static TRACK: Cell<bool> = const { Cell::new(false) };
    static LIVE: Cell<isize> = const { Cell::new(0) };
}

pub static TOTAL_ALLOCS: AtomicUsize = AtomicUsize::new(0);

// ---------------------------------------------------------------------------
// arena mode: while a cache's pages are mapped read-only (C19 guard) and the
// operation under test allocates (clone), its allocations must not land in -
// or touch allocator metadata in - the protected pages. They are served from a
// private bump arena instead; arena memory is never reused, freeing it is a no-op.

const ARENA_BYTES: usize = 1 << 30;

static ARENA_BASE: AtomicUsize = AtomicUsize::new(0);
static ARENA_NEXT: AtomicUsize = AtomicUsize::new(0);

thread_local! {
    static ARENA_ON: Cell<bool> = const { Cell::new(false) };
}

fn in_arena(p: *mut u8) -> bool {
    let base = ARENA_BASE.load(Ordering::Relaxed);
    base != 0 && (p as usize) >= base && (p as usize) < base + ARENA_BYTES
}

unsafe fn arena_alloc(layout: Layout) -> *mut u8 {
    let base = ARENA_BASE.load(Ordering::Relaxed);
    if base == 0 {
        return std::ptr::null_mut();
    }
    let align = layout.align().max(16);
    loop {
        let cur = ARENA_NEXT.load(Ordering::Relaxed);
        let start = (base + cur + align - 1) & !(align - 1);
        let end = start + layout.size().max(1);
        if end > base + ARENA_BYTES {
            return std::ptr::null_mut();
        }
        if ARENA_NEXT.compare_exchange(cur, end - base, Ordering::Relaxed, Ordering::Relaxed).is_ok() {
            return start as *mut u8;
        }
    }
}

/// Maps the arena (once) and turns arena mode on for this thread; false if the arena is not
/// available or has less than `need` bytes left.
pub fn arena_on(need: usize) -> bool {
    if ARENA_BASE.load(Ordering::Relaxed) == 0 {
        let p = unsafe {
            libc::mmap(std::ptr::null_mut(), ARENA_BYTES, libc::PROT_READ | libc::PROT_WRITE,
                libc::MAP_PRIVATE | libc::MAP_ANONYMOUS | libc::MAP_NORESERVE, -1, 0)
        };
        if p == libc::MAP_FAILED {
            return false;
        }
        ARENA_BASE.store(p as usize, Ordering::Relaxed);
    }
    if ARENA_NEXT.load(Ordering::Relaxed) + need > ARENA_BYTES {
        return false;
    }
    ARENA_ON.with(|a| a.set(true));
    true
}

pub fn arena_off() {
    ARENA_ON.with(|a| a.set(false));
}

unsafe impl GlobalAlloc for CountingAlloc {
    unsafe fn alloc(&self, layout: Layout) -> *mut u8 {
        if ARENA_ON.try_with(|a| a.get()).unwrap_or(false) {
            return arena_alloc(layout);
        }

        let refuse = REFUSE_FROM.try_with(|r| r.get()).unwrap_or(0);

        if refuse > 0 && layout.size() >= refuse {
            let _ = REFUSED.try_with(|r| r.set(r.get() + 1));
            return std::ptr::null_mut();
        }

        let nth = REFUSE_NTH.try_with(|r| {
            let n = r.get();
            if n > 0 { r.set(n - 1); }
            n
        }).unwrap_or(0);

        if nth == 1 {
            let _ = REFUSED.try_with(|r| r.set(r.get() + 1));
            return std::ptr::null_mut();
        }

        TOTAL_ALLOCS.fetch_add(1, Ordering::Relaxed);
        let p = System.alloc(layout);

        if !p.is_null() {
            let _ = TRACK.try_with(|t| {
                if t.get() {
                    let _ = LIVE.try_with(|l| l.set(l.get() + layout.size() as isize));
                }
            });
        }

        p
    }

    unsafe fn dealloc(&self, ptr: *mut u8, layout: Layout) {
        if in_arena(ptr) {
            return;
        }

        let _ = TRACK.try_with(|t| {
            if t.get() {
                let _ = LIVE.try_with(|l| l.set(l.get() - layout.size() as isize));
            }
        });
        System.dealloc(ptr, layout)
    }

    unsafe fn realloc(&self, ptr: *mut u8, layout: Layout, new_size: usize) -> *mut u8 {
        if in_arena(ptr) || ARENA_ON.try_with(|a| a.get()).unwrap_or(false) {
            let new = self.alloc(Layout::from_size_align_unchecked(new_size, layout.align()));
            if !new.is_null() {
                std::ptr::copy_nonoverlapping(ptr, new, layout.size().min(new_size));
                self.dealloc(ptr, layout);
            }
            return new;
        }

        let refuse = REFUSE_FROM.try_with(|r| r.get()).unwrap_or(0);

        if refuse > 0 && new_size >= refuse {
            let _ = REFUSED.try_with(|r| r.set(r.get() + 1));
            return std::ptr::null_mut();
        }

        let p = System.realloc(ptr, layout, new_size);

        if !p.is_null() {
            let _ = TRACK.try_with(|t| {
                if t.get() {
                    let _ = LIVE.try_with(|l| {
                        l.set(l.get() + new_size as isize - layout.size() as isize)
                    });
                }
            });
        }

        p
    }
}

/// Refuse every allocation of at least `min_bytes` bytes on this thread until
/// [allow_all] is called.
pub fn refuse_from(min_bytes: usize) {
    REFUSE_FROM.with(|r| r.set(min_bytes.max(1)));
    REFUSED.with(|r| r.set(0));
}

/// Refuse exactly the n-th (1-based) allocation request of this thread from now.
pub fn refuse_nth(n: usize) {
    REFUSE_NTH.with(|r| r.set(n));
    REFUSED.with(|r| r.set(0));
}

/// Lifts [refuse_from] / [refuse_nth] and returns how many requests were refused.
pub fn allow_all() -> usize {
    REFUSE_FROM.with(|r| r.set(0));
    REFUSE_NTH.with(|r| r.set(0));
    REFUSED.with(|r| r.get())
}

/// Starts attributing allocations of this thread to a fresh live-bytes counter.
pub fn track_start() {
    LIVE.with(|l| l.set(0));
    TRACK.with(|t| t.set(true));
}

/// Live bytes allocated since [track_start] and not freed.
pub fn track_live() -> isize {
    LIVE.with(|l| l.get())
}

pub fn track_stop() {
    TRACK.with(|t| t.set(false));
}
