SPECIFICATION Spec
CONSTANTS
  Keys = {1, 2, 3}
  NS = 3
  MaxT = 3
  MaxLen = 2
  HashFirst = FALSE
  DetachEarly = TRUE
  Crashes = TRUE
INVARIANT MemSafe
INVARIANT WellFormed
INVARIANT Refines
INVARIANT Bounded
CHECK_DEADLOCK FALSE
