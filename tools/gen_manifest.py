#!/usr/bin/env python3
"""Writes MANIFEST.json from the table below (single source of truth for the interface)."""
import json, os, subprocess
ROOT = os.path.dirname(os.path.dirname(os.path.abspath(__file__)))

CORE_NOTE = ("Trusted: TLC and the TLA+ specification spec/LruMem.tla (its declarative properties are model-checked "
             "against its constructive operators); the Rust harness projection (public API + read-only hook); "
             "bounded model = 3 key ids with sizes/limits on every exact-fit boundary, extended by random traces "
             "(up to hundreds of entries, tombstone-heavy tables, 7 hashers incl. one whose clone hashes differently, 2 key forms) "
             "validated step by step; the tours are replayed a second time with three other type shapes of the key / value "
             "types (key without drop glue, value without drop glue, an Entry layout with padding).")

CLAIMS = {
 "C01": ("model_checking", "5/C01", "Also evaluated in every call after a caught panic / refused allocation (crash sweeps over the bounded, the two-cache and the 70-224-entry segments, crash traces), on the real entry_size of what is held, and in large-scale runs (thousands of entries). TLC invariant C01_Bound on every state of the bounded model; every model transition replayed on the real cache under hasher x key-form configurations with current_size<=max_size compared after each step; random histories validated event by event by TLC trace validation (C01_Bound evaluated on every logged state)."),
 "C02": ("model_checking", "5/C02", "Sum of recorded sizes also checked around panics; large-scale self-consistency runs. TLC invariant C02_Exact (cur = sum of recorded sizes, recorded = entry_size, cur=0 iff empty) + step deltas; replay compares current_size, len, per-entry recorded size (hook) and entry_size after every step; trace validation re-checks on every logged state."),
 "C03": ("model_checking", "5/C03", "Declarative shortest-LRU-prefix property C03_Step model-checked against the constructive eviction operator on all transitions, and evaluated on every recorded step of the real cache; replay compares the exact surviving order after every evicting edge."),
 "C04": ("model_checking", "5/C04", "Sequential-map semantics (C04_Step, NoDup) model-checked; replay compares every return value and looks up every key of the universe through owned and borrowed forms after each step, under constant/1-bit/identity/SipHash/default hashers."),
 "C05": ("model_checking", "5/C05", "Declarative promote/keep-order property C05_Step model-checked; replay compares forward order, reverse order, peek_lru/peek_mru and Debug order after every step; trace validation on long histories with reallocation anywhere."),
 "C06": ("model_checking", "5/C06", "Owning iterators are also driven through nth / nth_back (entries passed over must be dropped exactly once), and with key / value types lacking drop glue (type shapes). Object conservation C06_Step (before+args = after + dropped + handed + leaked, pairwise disjoint) model-checked; replay/trace compare the identity (unique tokens) of every dropped, returned and stored object per step; registry reports double drops and end-of-life leaks."),
 "C07": ("model_checking", "5/C07", "Plus: pointer-level model LruList (MemSafe, WellFormed, Refines, IterRefines; two pinned variants must be rejected), the tour replayed by an AddressSanitizer build, and large-scale runs on caches of thousands of entries. WellFormed/SlotStable structural predicates evaluated by TLC on the hook output of every recorded step (links symmetric, nodes = occupied buckets, iterated entry = looked-up entry = list node, mirror traversals); replay compares the same facets after every model transition."),
 "C08": ("exploration", "5/C08", "spec/MemSize.tla transcribes the size algebra; TLC enumerates every type term of depth <= 2 (660 terms over 33 constructors, trait bounds respected), the systematic depth-3 bulk layer O(W(leaf)) (580 terms: every container or forwarding wrapper over every wrapper of a heap-owning and a heap-free leaf - where a specialised bulk helper is reached), a seeded depth-3 sample, fixed tuple/array terms and locks held by another thread while measured; generated Rust probes log the abstract structure of generated values; TLC checks mem = value + heap, heap = HS(structure) compositionally, the four bulk helpers over 7 iterator shapes = element-wise sums, and 10^6-element runs on a 2 MiB stack terminate."),
 "C09": ("exploration", "5/C09", "Same generated probes with random builder histories (with_capacity/push/extend/reserve/truncate/shrink at every nesting level); a counting global allocator measures the bytes each value holds; TLC checks the spec's allocation model Held(v) against the allocator, heap_size = allocator bytes for the exact types and the two-sided bound for HashMap/HashSet."),
 "C10": ("model_checking", "5/C10", "Also replayed with a key / value layout under which size_of::<Entry<K, V>>() exceeds the sizes of its parts (padding), so that the thresholds are checked against entry_size and not against a sum of parts. Classification/atomicity property C10_Step model-checked on all (state, key, size) combinations incl. simultaneous failure conditions; replay compares variant, numeric fields, identity of the returned pair and the untouched state; trace validation on random states."),
 "C11": ("model_checking", "5/C11", "C11_Step model-checked for shrink/equal/grow-fits/grow-evicts/overflow at every position; replay compares result forwarding, closure-ran flag, error fields, identity and post-state."),
 "C13": ("model_checking", "5/C13", "Plus: allocation refused at exactly the n-th allocation of every try_reserve (sweep), FIFO-churn traces that reach tombstone-driven rebuilds, MC_Tomb (probe group width 2) for tombstone arithmetic at design level. C13_Step/C13_Virgin/C13_GrowthBound model-checked with hashbrown's capacity arithmetic transcribed; replay compares capacity and bucket count exactly after every edge incl. overflow and injected allocator refusal; traces reach tombstone-heavy tables."),
 "C12": ("model_checking", "5/C12", "Iterator sub-machine (IterYields/IterRest + declarative C12_Step: front prefix, back prefix of the reverse, each entry once, None only after exhaustion and then forever) model-checked for all words over {next, next_back, nth(1), nth(2), nth_back(1), nth_back(2)} up to length len+1 (3 key ids quick, 4 thorough) and all 7 kinds (nth passes over entries: an owning iterator or drain must drop them; skip / step_by / rev of std are built from these calls); every such run replayed on the real iterators comparing yields by object identity, post-state, drops of unconsumed entries."),
 "C14": ("model_checking", "5/C14", "clone_from is modelled as well; every clone is probed (all keys, both key forms) right after it is made, also under a hash builder whose clone hashes differently; traces with values whose clones differ in size check that recorded sizes are copied. Two-cache model: clone in every state then every operation on either cache with the frame condition (other cache unchanged) as an action property; replay compares the clone's entries, order, recorded sizes, sizes, capacity and the identity of its objects (fresh clones of the source's), and the structural fingerprint of the other cache after every call."),
 "C16": ("model_checking", "5/C16", "Includes sweeps on caches of 70-224 entries with panics at the callbacks around powers of two and the entry count, continued use of an entry whose mutate closure panicked, and LruList with a Panic action at every user-code point. Crash points as events: for sampled edges of the bounded model a panic is injected at the n-th hash / eq / size / clone / closure callback for every n until the operation completes, followed by continued use and drop; TLC validates each crash event against the declarative CrashBad consistency predicate (structure well-formed, sizes sum, no double drop, no invented/lost entries for closure panics) and every later step against the ordinary specification."),
 "C17": ("model_checking", "5/C17", "Every (state, iterator kind, word, forget) edge of the iterator model is executed on the real cache as its own segment followed by continued use and drop; TLC validates the declarative ForgetBad predicate (valid cache, nothing yielded still inside, conservation of objects, no registry anomaly) and all later steps."),
 "C15": ("model_checking", "5/C15", "C15_Step for every subset of present keys in every model state; replay compares predicate call sequence (with object identity), survivors, drops and sizes."),
 "C18": ("other", "5/C18", "The compiler is the decision procedure. spec/Borrow.tla supplies the model of what must be accepted and rejected (loan discipline: shared loans admit only shared calls, exclusive loans admit nothing; auto traits: conjunction over K, V, S) and TLC enumerates all 498 acquire/call/use programs and 128 witness obligations plus generic ones; generated Rust functions are compiled with cargo check and every verdict (incl. the error code class) is compared with the prediction. The API table is cross-checked against the pub fn signatures so that a new lending API cannot go unprobed."),
 "C19": ("model_checking", "5/C19", "hasher() is an operation of the model (returns the builder the cache was given). Plus a read-only guard: every shared-reference operation of the tour is re-executed with the table allocation and the seal mapped PROT_READ (a write, even one that is undone, is a SIGSEGV), including clone / clone_from on the two-cache tour with a faithful key type and with one whose Clone does not preserve equality (the clone's allocations come from a private arena); clone is also checked when it unwinds. C19_Step (read operations are stuttering steps) model-checked; replay/trace additionally require the structural fingerprint (node addresses, links, recorded sizes, seal, table) to be identical before and after every shared-reference call."),
 "C20": ("model_checking", "5/C20", "Hash-count upper bound HashBound model-checked against the constructive bound; replay/trace compare the measured number of Hash::hash calls of every operation with the bound (upper bound only)."),
}

MS_NOTE = ("Trusted: TLC, spec/MemSize.tla (HS / Held written from the property text), the generic structure readers "
           "in memsize/src/probe.rs (no size arithmetic), the counting allocator; type terms to depth 2 exhaustively, "
           "deeper nestings sampled; poisoned locks and usize overflow excluded.")


def main():
    checks = []
    for pid in sorted(CLAIMS):
        cat, ref, text = CLAIMS[pid]
        checks.append({
            "property_id": pid,
            "quick_cmd": "python3 tools/check.py %s --tier quick" % pid,
            "thorough_cmd": "python3 tools/check.py %s --tier thorough" % pid,
            "evidence_file": "/verif/evidence/%s.json" % pid,
            "replay_cmd_template": "python3 tools/check.py replay {path}",
            "engine": "tlc-model-based",
            "level_claimed": {"category": cat, "text": text, "design_ref": "DESIGN.md section " + ref},
            "level_note": (MS_NOTE if pid in ("C08", "C09") else
                           "Trusted: rustc's type and borrow checker; the probe family (3-step programs over the API table, 4 witness types per parameter) approximates 'no safe program'." if pid == "C18" else CORE_NOTE),
            "technique": ("TLA+ loan/auto-trait model enumerated by TLC; rustc accept/reject of generated probes compared with the model's predictions" if pid == "C18" else "TLA+ size algebra as oracle and enumerator (TLC); generated Rust probes; TLC validation of probe records"
                          if pid in ("C08", "C09") else
                          "TLA+ specification + TLC model checking; spec->impl replay of every TLC transition; impl->spec TLC trace validation"),
        })
    props = [json.loads(l)["id"] for l in open(os.path.join(ROOT, "properties.jsonl"))]
    na = [{"property_id": p, "reason": NA.get(p, "stage not built yet (work in progress)")}
          for p in props if p not in CLAIMS]
    hook = subprocess.run(["git", "-C", "/repo", "log", "--format=%H", "--grep", "lru_mem_verif"],
                          stdout=subprocess.PIPE, text=True).stdout.split()
    m = {
        "version": 1,
        "setup_cmd": "python3 tools/check.py setup",
        "hooks": {
            "guard": "--cfg lru_mem_verif",
            "enable": "rustflags in /verif/harness/.cargo/config.toml: --cfg lru_mem_verif --check-cfg cfg(lru_mem_verif); the harness depends on /repo by path",
            "baseline_off_cmd": "cd /repo && cargo test --workspace --no-fail-fast --offline",
            "source_commits": hook,
            "add_only": True,
        },
        "engines": [{"name": "tlc-model-based", "path": "tools/check.py",
                     "serves_properties": sorted(CLAIMS),
                     "kind_free_text": "explicit TLA+ specification (spec/), TLC, Rust conformance harness (harness/), Python orchestration (tools/)"}],
        "checks": checks,
        "not_applicable": na,
        "notes": "See DESIGN.md. Exit 2 from a check = tool error. Known findings: KNOWN_FINDINGS.txt.",
    }
    with open(os.path.join(ROOT, "MANIFEST.json"), "w") as fh:
        json.dump(m, fh, indent=1)

NA = {}

if __name__ == "__main__":
    main()
