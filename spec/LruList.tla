------------------------------- MODULE LruList -------------------------------
(***************************************************************************)
(* Pointer-level model of lru-mem: the intrusive doubly-linked list whose  *)
(* nodes live INSIDE the hash table's buckets (src/entry.rs, src/lib.rs,   *)
(* src/iter.rs).  It refines the recency order of LruMem and makes the     *)
(* memory discipline explicit:                                             *)
(*   - addresses are <<table, slot>>; S is the heap-allocated seal;        *)
(*   - a cell is free | full | moved (payload moved out by ptr::read, the  *)
(*     table still lists it) | detached (payload intact, table emptied);   *)
(*   - every dereference is checked: following a link into a freed table,  *)
(*     or touching the payload of a cell that is not full/detached, sets   *)
(*     `ub` (undefined behaviour) - the model-level content of the memory  *)
(*     clauses of C07, C16 and C17;                                        *)
(*   - every call into user code (Hash, retain's predicate) is its own     *)
(*     step and may PANIC there: the operation is abandoned exactly as     *)
(*     unwinding abandons it (locals dropped: a table being moved out of   *)
(*     is freed, its remaining entries leak).                              *)
(* Two switches select between the algorithm as pinned and as repaired:    *)
(*   HashFirst   try_reallocate hashes all entries before moving any       *)
(*   DetachEarly Drain::new (not Drain::drop) empties the cache            *)
(* With both FALSE TLC finds the C16 / C17 counterexamples (findings F4,   *)
(* F3); with both TRUE all properties hold.                                *)
(***************************************************************************)
EXTENDS Integers, Sequences, FiniteSets, TLC

CONSTANTS Keys,         \* key ids
          NS,           \* slots of the largest table
          MaxT,         \* total number of table allocations in a behaviour
          MaxLen,       \* the memory bound, counted in entries
          HashFirst,    \* BOOLEAN: repaired try_reallocate
          DetachEarly,  \* BOOLEAN: repaired Drain
          Crashes       \* BOOLEAN: user code may panic

VARIABLES live,     \* set of allocated table ids
          curT,     \* id of the cache's table
          tcap,     \* table id -> number of slots
          cell,     \* address -> cell
          pend,     \* the operation in progress (micro-step machine), or Idle
          aord,     \* abstract recency order (LRU first) the list must present when idle
          ub,       \* an invalid dereference / double drop happened
          nextT     \* next table id to allocate

vars == <<live, curT, tcap, cell, pend, aord, ub, nextT>>

S == <<0, 0>>
BAD == <<-1, -1>>
Slots == 1..NS
Tables == 1..MaxT
Addr == {S} \cup (Tables \X Slots)

FreeCell == [st |-> "free", k |-> 0, prev |-> S, next |-> S]
Idle == [op |-> "idle"]

LiveAddr(a)    == a = S \/ a[1] \in live                    \* the memory exists
HasPayload(a)  == a # S /\ a[1] \in live /\ cell[a].st \in {"full", "detached"}
IsNode(a)      == a # S /\ a[1] \in live /\ cell[a].st = "full"

SlotsOf(t) == {<<t, s>> : s \in 1..tcap[t]}
FullOf(t)  == {a \in SlotsOf(t) : cell[a].st = "full"}
NEnt       == Cardinality(FullOf(curT))

-----------------------------------------------------------------------------
(* list primitives on a cell function c; they return the new function.     *)
(* (entry.rs: EntryPtr::unhinge, EntryPtr::insert / LruCache::set_head)    *)

Unhinged(c, a) ==
    LET p == c[a].prev  n == c[a].next IN
    [c EXCEPT ![p].next = n, ![n].prev = p]

AtHead(c, a) ==
    LET n == c[S].next IN
    [c EXCEPT ![S].next = a, ![n].prev = a, ![a].next = n, ![a].prev = S]

UnhingeSafe(c, a) == LiveAddr(a) /\ LiveAddr(c[a].prev) /\ LiveAddr(c[a].next)

(* walk from the seal along `prev` (LRU to MRU); BAD marks an invalid link *)
RECURSIVE WalkPrev(_, _, _)
WalkPrev(c, a, fuel) ==
    IF a = S THEN <<>>
    ELSE IF fuel = 0 \/ ~(a[1] \in live) THEN <<BAD>>
    ELSE <<a>> \o WalkPrev(c, c[a].prev, fuel - 1)

RECURSIVE WalkNext(_, _, _)
WalkNext(c, a, fuel) ==
    IF a = S THEN <<>>
    ELSE IF fuel = 0 \/ ~(a[1] \in live) THEN <<BAD>>
    ELSE <<a>> \o WalkNext(c, c[a].next, fuel - 1)

Rev(q) == [i \in 1..Len(q) |-> q[Len(q) + 1 - i]]
Fwd == WalkPrev(cell, cell[S].prev, NS + 1)
Bwd == WalkNext(cell, cell[S].next, NS + 1)

-----------------------------------------------------------------------------
Init ==
    /\ live = {1} /\ curT = 1 /\ nextT = 2
    /\ \E c0 \in {1, 2} : tcap = [t \in Tables |-> IF t = 1 THEN c0 ELSE 0]
    /\ cell = [a \in Addr |-> FreeCell]
    /\ pend = Idle /\ aord = <<>> /\ ub = FALSE

AddrOfKey(k) == CHOOSE a \in FullOf(curT) : cell[a].k = k
Present(k)   == \E a \in FullOf(curT) : cell[a].k = k
Without(q, k) == SelectSeq(q, LAMBDA x : x # k)

Fail == /\ ub' = TRUE /\ pend' = Idle
        /\ UNCHANGED <<live, curT, tcap, cell, aord, nextT>>

-----------------------------------------------------------------------------
(* simple calls: no user code between their pointer updates *)

(* get / touch: unhinge, then insert after the seal *)
Touch(k) ==
    /\ pend = Idle /\ Present(k)
    /\ LET a == AddrOfKey(k) IN
       IF ~UnhingeSafe(cell, a) THEN Fail
       ELSE /\ cell' = AtHead(Unhinged(cell, a), a)
            /\ aord' = Append(Without(aord, k), k)
            /\ UNCHANGED <<live, curT, tcap, pend, ub, nextT>>

(* remove: table.remove_entry, then Entry::unhinge; the pair is handed out *)
RemoveKey(k) ==
    /\ pend = Idle /\ Present(k)
    /\ LET a == AddrOfKey(k) IN
       IF ~UnhingeSafe(cell, a) THEN Fail
       ELSE /\ cell' = [Unhinged(cell, a) EXCEPT ![a] = FreeCell]
            /\ aord' = Without(aord, k)
            /\ UNCHANGED <<live, curT, tcap, pend, ub, nextT>>

(* clear: table.drain() drops every entry, then the seal is re-closed *)
Clear ==
    /\ pend = Idle
    /\ cell' = [a \in Addr |-> IF a \in SlotsOf(curT) THEN FreeCell
                               ELSE IF a = S THEN [cell[S] EXCEPT !.prev = S, !.next = S]
                               ELSE cell[a]]
    /\ aord' = <<>>
    /\ UNCHANGED <<live, curT, tcap, pend, ub, nextT>>

-----------------------------------------------------------------------------
(* insert(k), k absent: hash k | eject LRU entries while over the bound    *)
(* (hashing each victim's key) | link, growing the table first if it is    *)
(* full.                                                                    *)

StartInsert(k) ==
    /\ pend = Idle /\ ~Present(k)
    /\ pend' = [op |-> "insert", k |-> k, stage |-> "hash"]
    /\ UNCHANGED <<live, curT, tcap, cell, aord, ub, nextT>>

(* make_insert_hash: user code, nothing changed yet *)
InsertHash ==
    /\ pend.op = "insert" /\ pend.stage = "hash"
    /\ pend' = [pend EXCEPT !.stage = "eject"]
    /\ UNCHANGED <<live, curT, tcap, cell, aord, ub, nextT>>

(* eject_to_target: remove_lru -> remove_ptr hashes the victim's key (user  *)
(* code), then removes it from table and list and drops it                  *)
InsertEject ==
    /\ pend.op = "insert" /\ pend.stage = "eject"
    /\ IF NEnt < MaxLen
       THEN /\ pend' = [pend EXCEPT !.stage = "link"]
            /\ UNCHANGED <<live, curT, tcap, cell, aord, ub, nextT>>
       ELSE LET v == cell[S].prev IN
            IF ~IsNode(v) \/ ~UnhingeSafe(cell, v) THEN Fail
            ELSE /\ cell' = [Unhinged(cell, v) EXCEPT ![v] = FreeCell]
                 /\ aord' = Without(aord, cell[v].k)
                 /\ UNCHANGED <<live, curT, tcap, pend, ub, nextT>>

(* insert_unchecked: try_insert_no_grow, else reallocate(2 * capacity) *)
InsertLink ==
    /\ pend.op = "insert" /\ pend.stage = "link"
    /\ LET free == {a \in SlotsOf(curT) : cell[a].st # "full"} IN
       IF free # {}
       THEN \E a \in free :
              /\ cell' = AtHead([cell EXCEPT ![a] = [st |-> "full", k |-> pend.k,
                                                     prev |-> S, next |-> S]], a)
              /\ aord' = Append(aord, pend.k)
              /\ pend' = Idle
              /\ UNCHANGED <<live, curT, tcap, ub, nextT>>
       ELSE \* grow, then come back here
            /\ nextT <= MaxT
            /\ pend' = [op |-> "realloc", newcap |-> IF 2 * tcap[curT] > NS THEN NS ELSE
                                                     (IF tcap[curT] = 0 THEN 1 ELSE 2 * tcap[curT]),
                        stage |-> "start", then |-> pend, todo |-> <<>>, old |-> 0]
            /\ UNCHANGED <<live, curT, tcap, cell, aord, ub, nextT>>

-----------------------------------------------------------------------------
(* try_reallocate(newcap) (reserve, shrink_to, growth).                     *)
(*   pinned:   allocate, swap, then per entry: hash (USER), move, fix links *)
(*   repaired: per entry hash (USER) first; then allocate, swap, move       *)

StartRealloc(c) ==
    /\ pend = Idle /\ nextT <= MaxT /\ c >= NEnt /\ c \in 1..NS
    /\ pend' = [op |-> "realloc", newcap |-> c, stage |-> "start", then |-> Idle,
                todo |-> <<>>, old |-> 0]
    /\ UNCHANGED <<live, curT, tcap, cell, aord, ub, nextT>>

SeqOfSet(A) == LET RECURSIVE F(_)
                   F(X) == IF X = {} THEN <<>>
                           ELSE LET x == CHOOSE y \in X : TRUE IN <<x>> \o F(X \ {x})
               IN F(A)

ReallocStart ==
    /\ pend.op = "realloc" /\ pend.stage = "start"
    /\ IF HashFirst
       THEN \* pass 1: hash everything while nothing has changed
            /\ pend' = [pend EXCEPT !.stage = "prehash", !.todo = SeqOfSet(FullOf(curT))]
            /\ UNCHANGED <<live, curT, tcap, cell, aord, ub, nextT>>
       ELSE /\ live' = live \cup {nextT} /\ curT' = nextT /\ nextT' = nextT + 1
            /\ tcap' = [tcap EXCEPT ![nextT] = pend.newcap]
            /\ pend' = [pend EXCEPT !.stage = "move", !.todo = SeqOfSet(FullOf(curT)),
                                    !.old = curT]
            /\ UNCHANGED <<cell, aord, ub>>

(* repaired variant, pass 1: one user hash per entry; a panic here changes nothing *)
ReallocPrehash ==
    /\ pend.op = "realloc" /\ pend.stage = "prehash"
    /\ IF pend.todo # <<>>
       THEN /\ pend' = [pend EXCEPT !.todo = Tail(pend.todo)]
            /\ UNCHANGED <<live, curT, tcap, cell, aord, ub, nextT>>
       ELSE /\ live' = live \cup {nextT} /\ curT' = nextT /\ nextT' = nextT + 1
            /\ tcap' = [tcap EXCEPT ![nextT] = pend.newcap]
            /\ pend' = [pend EXCEPT !.stage = "move", !.todo = SeqOfSet(FullOf(curT)),
                                    !.old = curT]
            /\ UNCHANGED <<cell, aord, ub>>

(* move one entry: table.insert into the new table, then repair both neighbours *)
ReallocMove ==
    /\ pend.op = "realloc" /\ pend.stage = "move"
    /\ IF pend.todo = <<>>
       THEN \* old_table (now empty of entries) is dropped
            /\ live' = live \ {pend.old}
            /\ pend' = pend.then
            /\ cell' = [a \in Addr |-> IF a # S /\ a[1] = pend.old THEN FreeCell ELSE cell[a]]
            /\ tcap' = [tcap EXCEPT ![pend.old] = 0]
            /\ UNCHANGED <<curT, aord, ub, nextT>>
       ELSE LET src == Head(pend.todo)
                e   == cell[src]
                free == {a \in SlotsOf(curT) : cell[a].st # "full"}
            IN IF free = {} \/ ~LiveAddr(e.prev) \/ ~LiveAddr(e.next) THEN Fail
               ELSE \E dst \in free :
                    /\ cell' = [cell EXCEPT ![dst] = e, ![src].st = "moved",
                                            ![e.prev].next = dst, ![e.next].prev = dst]
                    /\ pend' = [pend EXCEPT !.todo = Tail(pend.todo)]
                    /\ UNCHANGED <<live, curT, tcap, aord, ub, nextT>>

-----------------------------------------------------------------------------
(* retain(pred): walk from the LRU end; call pred (USER); remove rejected   *)
(* entries; the link to continue with is read after the removal, from the   *)
(* vacated bucket (lib.rs: `tail = entry.prev`)                             *)

StartRetain(keep) ==
    /\ pend = Idle
    /\ pend' = [op |-> "retain", keep |-> keep, tail |-> cell[S].prev]
    /\ UNCHANGED <<live, curT, tcap, cell, aord, ub, nextT>>

RetainStep ==
    /\ pend.op = "retain"
    /\ IF pend.tail = S
       THEN /\ pend' = Idle
            /\ UNCHANGED <<live, curT, tcap, cell, aord, ub, nextT>>
       ELSE LET a == pend.tail IN
            IF ~IsNode(a) THEN Fail                      \* pred would read a dead payload
            ELSE IF cell[a].k \in pend.keep
            THEN /\ pend' = [pend EXCEPT !.tail = cell[a].prev]
                 /\ UNCHANGED <<live, curT, tcap, cell, aord, ub, nextT>>
            ELSE IF ~UnhingeSafe(cell, a) THEN Fail
            ELSE /\ cell' = [Unhinged(cell, a) EXCEPT ![a] = FreeCell]
                 /\ aord' = Without(aord, cell[a].k)
                 \* the code reads entry.prev from the vacated bucket, which is still
                 \* allocated and unchanged: same value as before the removal
                 /\ pend' = [pend EXCEPT !.tail = cell[a].prev]
                 /\ UNCHANGED <<live, curT, tcap, ub, nextT>>

-----------------------------------------------------------------------------
(* drain(): TakingIterator with two cursors (iter.rs).  n = next cursor     *)
(* (starts at the LRU entry), b = next_back cursor (MRU entry); S stands    *)
(* for the null cursor.  Entries are moved out with ptr::read.              *)

StartDrain ==
    /\ pend = Idle
    /\ LET empty == NEnt = 0
           cur   == [op |-> "drain", n |-> IF empty THEN S ELSE cell[S].prev,
                     b |-> IF empty THEN S ELSE cell[S].next, tbl |-> curT]
       IN IF DetachEarly
          THEN \* Drain::new empties the cache; payloads stay in the buckets
               /\ cell' = [a \in Addr |->
                             IF a \in FullOf(curT) THEN [cell[a] EXCEPT !.st = "detached"]
                             ELSE IF a = S THEN [cell[S] EXCEPT !.prev = S, !.next = S]
                             ELSE cell[a]]
               /\ aord' = <<>>
               /\ pend' = cur
               /\ UNCHANGED <<live, curT, tcap, ub, nextT>>
          ELSE /\ pend' = cur
               /\ UNCHANGED <<live, curT, tcap, cell, aord, ub, nextT>>

(* TakingIterator::next / next_back *)
DrainNext(front) ==
    /\ pend.op = "drain" /\ pend.n # S
    /\ LET a == IF front THEN pend.n ELSE pend.b IN
       IF ~HasPayload(a) THEN Fail                      \* ptr::read of freed / moved-out memory
       ELSE /\ cell' = [cell EXCEPT ![a] = IF cell[a].st = "detached" THEN FreeCell ELSE [cell[a] EXCEPT !.st = "moved"]]
            /\ pend' = IF pend.n = pend.b THEN [pend EXCEPT !.n = S]
                       ELSE IF front THEN [pend EXCEPT !.n = cell[a].prev]
                       ELSE [pend EXCEPT !.b = cell[a].next]
            /\ UNCHANGED <<live, curT, tcap, aord, ub, nextT>>

(* Drain::drop: exhaust, then (pinned) empty the cache *)
DrainDrop ==
    /\ pend.op = "drain" /\ pend.n = S
    /\ pend' = Idle
    /\ IF DetachEarly
       THEN UNCHANGED <<live, curT, tcap, cell, aord, ub, nextT>>
       ELSE /\ cell' = [a \in Addr |->
                          IF a \in SlotsOf(curT) THEN FreeCell
                          ELSE IF a = S THEN [cell[S] EXCEPT !.prev = S, !.next = S]
                          ELSE cell[a]]
            /\ aord' = <<>>
            /\ UNCHANGED <<live, curT, tcap, ub, nextT>>

(* mem::forget(drain): the destructor never runs.  Entries not yet yielded  *)
(* are leaked; the abstract cache is whatever the table still lists.        *)
DrainForget ==
    /\ pend.op = "drain"
    /\ pend' = Idle
    /\ IF DetachEarly
       THEN \* un-yielded payloads are abandoned in buckets the table considers empty
            /\ cell' = [a \in Addr |-> IF a # S /\ cell[a].st = "detached"
                                       THEN FreeCell ELSE cell[a]]
            /\ UNCHANGED <<live, curT, tcap, aord, ub, nextT>>
       ELSE UNCHANGED <<live, curT, tcap, cell, aord, ub, nextT>>

-----------------------------------------------------------------------------
(* iter() / keys() / values(): the borrowing two-cursor iterator (iter.rs   *)
(* Iter::next / next_back).  n = next cursor (LRU end), b = next_back cursor *)
(* (MRU end); S stands for the null cursor that marks exhaustion.  `ys` is  *)
(* what it yielded so far, `rem` (ghost) what the abstract deque still      *)
(* holds: the meeting-point logic must make the two agree for every word    *)
(* over {next, next_back}, including calls past exhaustion.                 *)

StartIter ==
    /\ pend = Idle
    /\ pend' = [op |-> "iter", n |-> IF NEnt = 0 THEN S ELSE cell[S].prev,
                b |-> IF NEnt = 0 THEN S ELSE cell[S].next, rem |-> aord, calls |-> 0, ok |-> TRUE]
    /\ UNCHANGED <<live, curT, tcap, cell, aord, ub, nextT>>

IterStep(front) ==
    /\ pend.op = "iter" /\ pend.calls < NS + 2
    /\ IF pend.n = S
       THEN \* exhausted: None, and it stays that way (fused)
            /\ pend' = [pend EXCEPT !.calls = @ + 1, !.ok = @ /\ (pend.rem = <<>>)]
            /\ UNCHANGED <<live, curT, tcap, cell, aord, ub, nextT>>
       ELSE LET a == IF front THEN pend.n ELSE pend.b IN
            IF ~IsNode(a) THEN Fail
            ELSE LET want == IF pend.rem = <<>> THEN 0
                             ELSE IF front THEN Head(pend.rem) ELSE pend.rem[Len(pend.rem)]
                     rest == IF pend.rem = <<>> THEN <<>>
                             ELSE IF front THEN Tail(pend.rem) ELSE SubSeq(pend.rem, 1, Len(pend.rem) - 1)
                     meet == pend.n = pend.b
                 IN /\ pend' = [pend EXCEPT !.calls = @ + 1, !.rem = rest,
                                            !.ok = @ /\ (cell[a].k = want),
                                            !.n = IF meet THEN S ELSE IF front THEN cell[a].prev ELSE @,
                                            !.b = IF meet \/ front THEN @ ELSE cell[a].next]
                    /\ UNCHANGED <<live, curT, tcap, cell, aord, ub, nextT>>

EndIter ==
    /\ pend.op = "iter"
    /\ pend' = Idle
    /\ UNCHANGED <<live, curT, tcap, cell, aord, ub, nextT>>

(* C12 at pointer level: every yield is what the abstract deque yields, and *)
(* None appears exactly when the deque is empty                             *)
IterRefines == (pend.op = "iter") => pend.ok

-----------------------------------------------------------------------------
(* a panic in user code: the operation is abandoned where it stands.        *)
(* Locals are dropped: during `move` the old table is freed (its entries    *)
(* are MaybeUninit: they leak, they are not dropped).                       *)

UserCodePoint ==
    \/ (pend.op = "insert" /\ pend.stage \in {"hash"})
    \/ (pend.op = "insert" /\ pend.stage = "eject" /\ NEnt >= MaxLen)      \* hashing the victim
    \/ (pend.op = "realloc" /\ pend.stage = "prehash" /\ pend.todo # <<>>)
    \/ (pend.op = "realloc" /\ pend.stage = "move" /\ pend.todo # <<>> /\ ~HashFirst)
    \/ (pend.op = "retain" /\ pend.tail # S)

Panic ==
    /\ Crashes /\ pend # Idle /\ UserCodePoint
    /\ pend' = Idle
    /\ IF pend.op = "realloc" /\ pend.stage = "move"
       THEN /\ live' = live \ {pend.old}
            \* what the cache can still reach defines its abstract content from now on
            /\ aord' = SelectSeq(aord, LAMBDA k : \E a \in FullOf(curT) : cell[a].k = k)
            /\ cell' = [a \in Addr |-> IF a # S /\ a[1] = pend.old THEN FreeCell ELSE cell[a]]
            /\ tcap' = [tcap EXCEPT ![pend.old] = 0]
            /\ UNCHANGED <<curT, ub, nextT>>
       ELSE UNCHANGED <<live, curT, tcap, cell, aord, ub, nextT>>

-----------------------------------------------------------------------------
Next ==
    \/ \E k \in Keys : Touch(k) \/ RemoveKey(k) \/ StartInsert(k)
    \/ Clear
    \/ InsertHash \/ InsertEject \/ InsertLink
    \/ \E c \in 1..NS : StartRealloc(c)
    \/ ReallocStart \/ ReallocPrehash \/ ReallocMove
    \/ \E keep \in SUBSET Keys : StartRetain(keep)
    \/ RetainStep
    \/ StartIter \/ IterStep(TRUE) \/ IterStep(FALSE) \/ EndIter
    \/ StartDrain \/ DrainNext(TRUE) \/ DrainNext(FALSE) \/ DrainDrop \/ DrainForget
    \/ Panic

Spec == Init /\ [][Next]_vars

-----------------------------------------------------------------------------
(* properties *)

(* C07 / C16 / C17, memory part: no invalid dereference, no double drop *)
MemSafe == ~ub

(* C07 / C16 / C17, structure: whenever no operation is in progress the list *)
(* is one cycle through the seal, symmetric, and its nodes are exactly the   *)
(* occupied buckets of the one live table                                    *)
WellFormed ==
    (pend = Idle) =>
        /\ live = {curT}
        /\ BAD \notin {Fwd[i] : i \in DOMAIN Fwd} \cup {Bwd[i] : i \in DOMAIN Bwd}
        /\ Fwd = Rev(Bwd)
        /\ {Fwd[i] : i \in DOMAIN Fwd} = FullOf(curT)
        /\ Len(Fwd) = Cardinality(FullOf(curT))
        /\ \A a \in Addr \ {S} : (a[1] = curT /\ a[2] <= tcap[curT]) \/ cell[a].st # "full" \/ a[1] \notin live

(* refinement of LruMem's recency order: what iteration yields is the abstract order *)
Refines == (pend = Idle /\ BAD \notin {Fwd[i] : i \in DOMAIN Fwd}) =>
               [i \in DOMAIN Fwd |-> cell[Fwd[i]].k] = aord

(* C01 at this level: the bound in entries *)
Bounded == (pend = Idle) => NEnt <= MaxLen

=============================================================================
